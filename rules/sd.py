"""Rules about the stroker and the dasher (shared by C04, C09, C07)."""
from util import *
from fractions import Fraction
from terms import fmt, subterms, Deps
import shared
import dt

ST = 'raqote::stroke::'
PB = 'raqote::path_builder::PathBuilder::'
PATHOP = 'raqote::path_builder::PathOp'
DASH = 'raqote::dash::dash_path'
EMIT = {PB + 'move_to', PB + 'line_to', PB + 'quad_to', PB + 'cubic_to', PB + 'close', ST + 'cap_line', ST + 'join_line', ST + 'bevel', ST + 'arc', ST + 'join_round'}


def op_match(ctx, b, R):
    ms = matches(ctx, b, 'PathOp')
    if len(ms) != 1:
        ctx.fail(R, short(b.q) + '|match', b.loc(), 'expected one match on a PathOp, found %d (fail closed)' % len(ms))
        return None
    return ms[0]


def r04_1(ctx):
    """join and cap dispatch"""
    R = 'R04.1'
    b = ctx.body(ST + 'join_line', R)
    an = ctx.an(b)
    key = 'stroke::join_line'
    ms = [m for m in matches(ctx, b, 'LineJoin')]
    if ctx.check(len(ms) == 1 and ms[0].otherwise is None, R, key + '|match', b.loc(), 'one match on style.join, no wildcard', 'expected one wildcard-free match on style.join'):
        m = ms[0]
        r, nm = field_path(m.scrut)
        ctx.check(r == ('param', 2) and nm == ['join'], R, key + '|scrutinee', b.loc(), 'match style.join', 'the join dispatch does not match on style.join')
        def arm_calls(v):
            region = arm_region(an.cfg, m.bb, m.arms[v])
            return region, [(bi, d, ct) for bi, d, ct in calls_in(ctx, b, region) if d and d.startswith('raqote::')]
        for v in ('Round', 'Bevel', 'Miter'):
            if v not in m.arms:
                ctx.fail(R, key + '|arm ' + v, b.loc(), 'no %s arm' % v)
                continue
            region, cs = arm_calls(v)
            names = [d.split('::')[-1] for bi, d, ct in cs]
            if v == 'Round':
                ok = ('join_round' in names or 'arc' in names) and 'bevel' not in names and 'line_intersection' not in names
                if ok and 'join_round' in names:
                    jr = [ct for bi, d, ct in cs if d == ST + 'join_round'][0]
                    ok = jr[2][1] == ('param', 3) and const_val(jr[2][4]) is None
                elif ok:
                    # the wrapper written out: arc(dest, pt.x, pt.y, radius, n1, n2) about the join point
                    ar = [ct for bi, d, ct in cs if d == ST + 'arc'][0]
                    cx, cy = field_path(strip_all(ar[2][1])), field_path(strip_all(ar[2][2]))
                    ok = cx == (('param', 3), ['x']) and cy == (('param', 3), ['y']) and const_val(ar[2][3]) is None
                ctx.check(ok, R, key + '|Round', b.loc(), 'Round -> join_round(pt, n1, n2, offset)', 'the Round arm calls %s, expected join_round (an arc about the join point)' % names)
            elif v == 'Bevel':
                ok = names == ['bevel']
                ctx.check(ok, R, key + '|Bevel', b.loc(), 'Bevel -> bevel()', 'the Bevel arm calls %s, expected exactly bevel' % names)
            else:
                li = [bi for bi, d, ct in cs if d == ST + 'line_intersection']
                bv = [bi for bi, d, ct in cs if d == ST + 'bevel']
                ok = len(li) == 1 and len(bv) == 1
                if ok:
                    # both hang off one comparison that involves style.miter_limit, on opposite edges
                    g1 = [(op, a, b2) for op, a, b2, si in normalized_guards(ctx, b, li[0]) if any(x[0] == 'field' and x[2] == 'miter_limit' for x in subterms(a) ) or (b2 and any(x[0] == 'field' and x[2] == 'miter_limit' for x in subterms(b2)))]
                    g2 = [(op, a, b2) for op, a, b2, si in normalized_guards(ctx, b, bv[0]) if any(x[0] == 'field' and x[2] == 'miter_limit' for x in subterms(a)) or (b2 and any(x[0] == 'field' and x[2] == 'miter_limit' for x in subterms(b2)))]
                    def canon(gs_):
                        out_ = set()
                        for op, a, b2 in gs_:
                            if repr(a) > repr(b2):
                                op = ('!' if op.startswith('!') else '') + CMP_SWAP[op.lstrip('!')]
                                a, b2 = b2, a
                            out_.add((op, a, b2))
                        return sorted(out_, key=repr)
                    g1, g2 = canon(g1), canon(g2)
                    ok = len(g1) == 1 and len(g2) == 1 and g1[0][1:] == g2[0][1:] and g1[0][0].lstrip('!') == g2[0][0].lstrip('!') and g1[0][0] != g2[0][0]
                ctx.check(ok, R, key + '|Miter', b.loc(), 'Miter -> miter_limit test ? line_intersection : bevel', 'the Miter arm does not choose between the miter point (line_intersection) and bevel() on a miter_limit test')
    b = ctx.body(ST + 'cap_line', R)
    an = ctx.an(b)
    key = 'stroke::cap_line'
    # what cap_line emits per cap kind, however the dispatch on style.cap is spelled
    vp = shared.variant_call_paths(ctx, b, lambda t: field_path(t) == (('param', 2), ['cap']), 'raqote::stroke::LineCap')
    if vp is None:
        # the cap kind handed in by value: then every caller must hand in its style's cap
        cps = [i for i in range(1, b.argc + 1) if b.local_ty(i).endswith('stroke::LineCap')]
        if len(cps) == 1:
            vp = shared.variant_call_paths(ctx, b, lambda t: strip_all(t) == ('param', cps[0]), 'raqote::stroke::LineCap')
            if vp is not None:
                bad_callers = []
                for q2, b2 in ctx.F.bodies.items():
                    for bi2, d2, ct2 in calls_in(ctx, b2):
                        if d2 == ST + 'cap_line':
                            a = strip_all(ct2[2][cps[0] - 1])
                            if not (a[0] == 'field' and a[2] == 'cap' and (a[3] or '').endswith('StrokeStyle')):
                                bad_callers.append(short(q2))
                ctx.check(not bad_callers, R, key + '|callers pass style.cap', b.loc(), 'every caller passes its style.cap', 'cap_line takes the cap kind as a parameter and %s do not pass style.cap' % sorted(set(bad_callers)))
    if ctx.check(vp is not None and set(vp) == {'Butt', 'Round', 'Square'} and all(vp[v] for v in vp), R, key + '|match', b.loc(), 'cap_line dispatches on style.cap for Butt, Round and Square',
                 'cannot read cap_line as a dispatch on style.cap over Butt/Round/Square (fail closed)'):
        for v in ('Butt', 'Round', 'Square'):
            seqs = set(tuple(d.split('::')[-1] for bi, d, ct in path if d in EMIT) for path in vp[v])
            if not ctx.check(len(seqs) == 1, R, key + '|arm ' + v, b.loc(), 'one emission sequence for %s' % v, 'the %s cap emits different op sequences on different paths: %s' % (v, sorted(seqs))):
                continue
            names = list(list(seqs)[0])
            if v == 'Butt':
                ctx.check(not names, R, key + '|Butt', b.loc(), 'Butt emits nothing', 'the Butt arm emits %s' % names)
            elif v == 'Round':
                ctx.check('arc' in names and names.count('move_to') == 1 and names[-1] == 'close', R, key + '|Round', b.loc(), 'Round -> closed half disc (arc)', 'the Round arm emits %s, expected a closed figure containing arc()' % names)
            else:
                ctx.check('arc' not in names and names.count('move_to') == 1 and names.count('line_to') == 4 and names[-1] == 'close', R, key + '|Square', b.loc(), 'Square -> closed 5-vertex polygon', 'the Square arm emits %s, expected move_to, 4 x line_to, close and no arc' % names)
    jr = ctx.body(ST + 'join_round', R, optional=True)
    if jr is not None:
        ok = [d for bi, d, ct in calls_in(ctx, jr)] == [ST + 'arc']
        ctx.check(ok, R, 'stroke::join_round|arc', jr.loc(), 'join_round -> arc', 'join_round does not delegate to arc()')


def both_some_guard(ctx, b, bi, locals_names):
    """bi is dominated by the Some/Some edges of a match on the tuple (cursor, start)"""
    vg = variant_guards(ctx, b, bi)
    hits = set()
    for scr, adt, v, sb in vg:
        if v != 'Some':
            continue
        t = strip_all(scr)
        if t[0] in ('phi', 'mem') and b.local_name(t[1]) in locals_names:
            hits.add(b.local_name(t[1]))
    return hits


def r04_2(ctx):
    """caps at both ends of every open subpath, none on closed ones"""
    R = 'R04.2'
    b = ctx.body(ST + 'stroke_to_path', R)
    an = ctx.an(b)
    cfg = an.cfg
    key = 'stroke::stroke_to_path'
    m = op_match(ctx, b, R)
    if m is None:
        return
    caps = [(bi, ct) for bi, d, ct in calls_in(ctx, b) if d == ST + 'cap_line']
    inloop = set()
    for h, bl in cfg.loops().items():
        inloop |= bl
    mv_region = arm_region(cfg, m.bb, m.arms['MoveTo']) if 'MoveTo' in m.arms else set()
    groups = {'MoveTo arm': [c for c in caps if c[0] in mv_region], 'after the loop': [c for c in caps if c[0] not in inloop]}
    # which user variables play cursor / start: the cursor is assigned Some(LineTo payload) on every path of the LineTo arm
    cursor = None
    for l, ds in an.defs_of.items():
        nm = b.locals[l].get('name')
        if not nm:
            continue
        for d in ds:
            if d.kind == 'assign' and not d.partial:
                t = an.def_term(d)
                if t[0] == 'agg' and t[3] == 'Some' and strip_all(t[4][0][1])[0] == 'field' and strip_all(t[4][0][1])[4] == 'LineTo':
                    cursor = l
    start = None
    for l, ds in an.defs_of.items():
        nm = b.locals[l].get('name')
        if not nm or l == cursor:
            continue
        for d in ds:
            if d.kind == 'assign' and not d.partial:
                t = an.def_term(d)
                if t[0] == 'agg' and t[3] == 'Some' and t[4][0][1][0] == 'agg' and t[4][0][1][1] == 'tuple':
                    start = l
    if not ctx.check(cursor is not None and start is not None, R, key + '|roles', b.loc(), 'cursor=%s start=%s' % (b.local_name(cursor) if cursor else None, b.local_name(start) if start else None), 'cannot recover the cursor / subpath-start variables (fail closed)'):
        return
    for gname, cs in groups.items():
        k2 = key + '|caps ' + gname
        if not ctx.check(len(cs) == 2, R, k2 + '|two caps', b.loc(), 'two cap_line calls', '%d cap_line calls %s, expected two (end and beginning of the open subpath)' % (len(cs), gname)):
            continue
        if cfg.dominates(cs[1][0], cs[0][0]) and cs[0][0] != cs[1][0]:
            cs = [cs[1], cs[0]]
        for bi, ct in cs:
            vg = variant_guards(ctx, b, bi)
            roots = set()
            for scr, adt, v, sb in vg:
                if v == 'Some':
                    t = strip_all(scr)
                    if t[0] in ('phi', 'mem', 'rec'):
                        roots.add(t[1])
                    elif t[0] == 'field':
                        r0, _n = field_path(t)
                        if r0[0] in ('phi', 'mem'):
                            roots.add(r0[1])
            ctx.check(cursor in roots and start in roots, R, k2 + '|guard@%d' % cs.index((bi, ct)), call_line(b, bi), 'cap only when cursor and start are both set', 'a cap is emitted without testing that both the cursor and the subpath start are set')
        (b1, c1), (b2, c2) = cs
        # end cap: (cursor payload, last_normal); start cap: (start payload .0, flip(start payload .1))
        def from_local(t, l):
            t = strip_all(t)
            r0, n0 = field_path(t)
            return r0[0] in ('phi', 'mem', 'rec') and (r0[1] == l if r0[0] != 'rec' else True), n0
        okc, n1 = from_local(c1[2][2], cursor)
        ln = strip_all(c1[2][3])
        ok_end = okc and n1 == ['0'] and ln[0] in ('phi', 'mem') and b.local_name(ln[1]) not in (b.local_name(cursor), b.local_name(start))
        oks, n2 = from_local(c2[2][2], start)
        fl = strip_all(c2[2][3])
        ok_start = oks and n2 == ['0', '0'] and is_call(fl, 'stroke::flip') and from_local(fl[2][0], start)[0] and from_local(fl[2][0], start)[1] == ['0', '1']
        ctx.check(ok_end, R, k2 + '|end cap', call_line(b, b1), 'end cap at the cursor with the last normal', 'the end cap is not cap_line(cursor, last_normal)')
        ctx.check(ok_start, R, k2 + '|start cap', call_line(b, b2), 'start cap at the start point with the flipped start normal', 'the start cap is not cap_line(start point, flip(start normal))')
    # Close clears the start record on every path (no cap follows a closed subpath)
    if 'Close' in m.arms:
        region = arm_region(cfg, m.bb, m.arms['Close'])
        st = set(d.bb for d in an.defs_of.get(start, []) if d.bb in region and d.kind == 'assign' and strip_all(an.def_term(d))[0] == 'agg' and strip_all(an.def_term(d))[3] == 'None')
        stop = cfg.ipdom(m.bb)
        ok, _p = cfg.must_pass_through(m.arms['Close'], st, exits=[stop] if stop is not None else None)
        ctx.check(ok and bool(st), R, key + '|Close clears start', b.loc(), 'Close sets the start record to None on every path', 'the Close arm does not clear the subpath start on every path: a closed subpath would still get caps')
        none_caps = [c for c in caps if c[0] in region]
        ctx.check(not none_caps, R, key + '|no cap in Close', b.loc(), 'no cap_line in the Close arm', 'the Close arm emits caps')


def r04_3(ctx):
    """joins at interior vertices and at the closing vertex"""
    R = 'R04.3'
    b = ctx.body(ST + 'stroke_to_path', R)
    an = ctx.an(b)
    cfg = an.cfg
    key = 'stroke::stroke_to_path'
    m = op_match(ctx, b, R)
    if m is None:
        return
    joins = [(bi, ct) for bi, d, ct in calls_in(ctx, b) if d == ST + 'join_line']
    def kind(t):
        """describe a point/normal argument: ('payload', variant) | ('local', name) | ('normal-of', a, b) | other"""
        t = strip_all(t)
        if t[0] == 'field' and t[3] == PATHOP:
            return ('payload', t[4])
        if is_call(t, 'stroke::compute_normal'):
            return ('normal', kind(t[2][0]), kind(t[2][1]))
        r0, n0 = field_path(t)
        if r0[0] in ('phi', 'mem', 'rec') and r0[0] != 'rec':
            return ('local', b.local_name(r0[1]), tuple(n0))
        if is_call(r0, 'stroke::compute_normal'):
            return ('normal', kind(r0[2][0]), kind(r0[2][1]))
        return ('other', fmt(b, t)[:40])
    if 'LineTo' in m.arms:
        region = arm_region(cfg, m.bb, m.arms['LineTo'])
        js = [(bi, ct) for bi, ct in joins if bi in region]
        ok = len(js) == 1
        if ok:
            bi, ct = js[0]
            a = [kind(x) for x in ct[2][2:5]]
            ok = a[0][0] == 'local' and a[0][2] == ('0',) and a[1][0] == 'local' and a[1][2] == () and a[2][0] == 'normal' and a[2][1] == a[0] and a[2][2] == ('payload', 'LineTo')
            # only when a start normal already exists: on every path to the join the first-segment record is Some
            # (whichever way it is tested: is_none()/is_some(), if let, match)
            import typestate
            curs, recs = stroker_cur_rec(ctx, b, an, m)
            if ok and len(curs) == 1 and len(recs) == 1:
                at = typestate.run(ctx, b, [list(curs)[0], recs[0]])
                sts = at.get(bi, set())
                ok = bool(sts) and all(st[1] == 'S' for st in sts)
            else:
                ok = False
        ctx.check(ok, R, key + '|LineTo join', b.loc(), 'join_line(cursor, last_normal, normal(cursor, pt)) when a start exists', 'the LineTo arm does not join (cursor, last_normal, normal of the new segment) exactly when the subpath already has a first segment')
        # last_normal := normal on every emitted segment
        ln_defs = []
        for l, ds in an.defs_of.items():
            if b.locals[l].get('name') == 'last_normal' or True:
                for d in ds:
                    if d.bb in region and d.kind == 'assign' and not d.partial and b.locals[l].get('name'):
                        t = strip_all(an.def_term(d))
                        r0, n0 = field_path(t)
                        if is_call(r0, 'stroke::compute_normal') and n0 == ['0']:
                            ln_defs.append((l, d))
        segs = [bi for bi, d, ct in calls_in(ctx, b, region) if d == PB + 'close']
        ok = bool(ln_defs) and bool(segs) and all(any(cfg.dominates(sb, d.bb) or cfg.dominates(d.bb, sb) for l, d in ln_defs if b.local_name(l) != 'normal') for sb in segs)
        names = set(b.local_name(l) for l, d in ln_defs)
        ctx.check(len(names - {'normal'}) >= 1 and ok, R, key + '|last normal updated', b.loc(), 'the remembered normal is updated with each emitted segment', 'the LineTo arm emits a segment without remembering its normal for the next join')
    if 'Close' in m.arms:
        region = arm_region(cfg, m.bb, m.arms['Close'])
        js = [(bi, ct) for bi, ct in joins if bi in region]
        # one join whose incoming normal is `closing_normal.unwrap_or(last_normal)` stands for the two joins of the two
        # cases (a closing segment with a normal / a degenerate one)
        js2 = []
        for bi, ct in js:
            exp = False
            for k3 in (2, 3, 4):
                a3 = strip_all(ct[2][k3])
                if is_call(a3, 'Option::<T>::unwrap_or') and len(a3[2]) == 2:
                    some = ('field', a3[2][0], '0', 'std::option::Option', 'Some')
                    for alt in (some, a3[2][1]):
                        args = list(ct[2])
                        args[k3] = alt
                        js2.append((bi, ('call', ct[1], tuple(args), ct[3])))
                    exp = True
                    break
            if not exp:
                js2.append((bi, ct))
        js = js2
        descr = sorted(tuple(kind(x) for x in ct[2][2:5]) for bi, ct in js)
        # expected three joins: (cursor, last, n), (end_point, n, start_normal), and the degenerate (end_point, last, start_normal)
        def is_n(kk):
            return kk[0] == 'normal'
        def loc(kk, *proj):
            return kk[0] == 'local' and kk[2] == tuple(proj)
        a = b2 = c = False
        for pt, n1, n2 in descr:
            if loc(pt, '0') and loc(n1) and is_n(n2):
                a = True
            if loc(pt, '0', '0') and is_n(n1) and loc(n2, '0', '1'):
                b2 = True
            if loc(pt, '0', '0') and loc(n1) and loc(n2, '0', '1'):
                c = True
        ctx.check(a, R, key + '|Close join at last vertex', b.loc(), 'join at the last vertex (cursor, last_normal, closing normal)', 'the Close arm does not join the last segment to the closing segment: %s' % descr)
        ctx.check(b2, R, key + '|Close join at closing vertex', b.loc(), 'join at the closing vertex (start, closing normal, start normal)', 'the Close arm does not join the closing segment to the first segment at the subpath start: %s' % descr)
        ctx.check(c, R, key + '|Close join degenerate', b.loc(), 'already-closed subpath joins (start, last_normal, start normal)', 'when the subpath already ends at its start the Close arm does not join the last segment to the first')


def emission_sites(ctx, b):
    return [bi for bi, d, ct in calls_in(ctx, b) if d in EMIT]


def r04_4(ctx):
    """width guard with NaN-rejecting polarity; dash period guard likewise"""
    R = 'R04.4'
    b = ctx.body(ST + 'stroke_to_path', R)
    key = 'stroke::stroke_to_path'
    sites = emission_sites(ctx, b)
    ctx.floor(R, 'emission sites in stroke_to_path', len(sites), 10)
    bad = []
    for bi in sites:
        gs = normalized_guards(ctx, b, bi)
        ok = False
        for op, a, b2, si in gs:
            if b2 is None:
                continue
            aw = a[0] == 'field' and a[2] == 'width' and field_path(a)[0] == ('param', 2)
            bw = b2[0] == 'field' and b2[2] == 'width' and field_path(b2)[0] == ('param', 2)
            if (op == 'Gt' and aw and const_val(b2) == 0) or (op == 'Lt' and bw and const_val(a) == 0):
                ok = True
        if not ok:
            bad.append(bi)
    ctx.check(not bad, R, key + '|width > 0 on the true edge', b.loc(), 'every emission is on the true edge of width > 0',
              'stroke outlines are emitted on a path that is not the true edge of an ordered `width > 0` test (the guard is written the other way round, e.g. `width <= 0 -> return`): every ordered comparison with NaN is false, so a NaN width passes the guard and paints')
    d = ctx.body(DASH, R)
    dk = 'dash::dash_path'
    sites = [bi for bi, dd, ct in calls_in(ctx, d) if dd in (PB + 'move_to', PB + 'line_to', PB + 'close')]
    ctx.floor(R, 'emission sites in dash_path', len(sites), 8)
    bad = []
    for bi in sites:
        gs = normalized_guards(ctx, d, bi)
        ok = False
        for op, a, b2, si in gs:
            if op == 'Gt' and b2 is not None and const_val(b2) == 0 and a[0] in ('phi', 'rec', 'bin', 'mem'):
                ok = True
        if not ok:
            bad.append(bi)
    ctx.check(not bad, R, dk + '|period > 0 on the true edge', d.loc(), 'every dash emission is on the true edge of total > 0', 'dash_path emits dashes on a path that is not the true edge of `total_dash_length > 0`: a NaN or non-positive period must disable dashing')


def r04_5(ctx):
    """the stroke pipeline: flatten -> dash? -> stroke_to_path -> fill"""
    R = 'R04.5'
    b = ctx.body(dt.DT + 'stroke', R)
    an = ctx.an(b)
    key = 'draw_target::DrawTarget::stroke'
    fills = [(bi, ct) for bi, d, ct in calls_in(ctx, b) if d == dt.DT + 'fill']
    if not ctx.check(len(fills) == 1, R, key + '|fill', b.loc(), 'one fill call', 'expected one fill call in stroke'):
        return
    bi, ct = fills[0]
    # no early-out: whatever the width, the dash array or the transform, stroke() reaches fill() (degenerate strokes are
    # rejected inside stroke_to_path / dash_path, in user space; thresholds on style.width or on the determinant here are
    # in the wrong units)
    okp, pth = an.cfg.must_pass_through(0, set([bi]))
    ctx.check(okp, R, key + '|fill on every path', call_line(b, bi), 'every returning path of stroke() goes through fill()',
              'stroke() can return without calling fill() (blocks %s): an early-out on the stroke width, the transform or similar makes some strokes vanish that the pipeline would draw (e.g. a hairline in user units that is several pixels wide under the current transform, or an invertible but strongly zoomed-out transform)' % pth)
    # params: self=1, path=2, src=3, style=4, options=5
    ctx.check(strip_all(ct[2][2]) in (('param', 3), ('deref', ('param', 3))) and strip_all(ct[2][3]) in (('param', 5), ('deref', ('param', 5))), R, key + '|src, options', call_line(b, bi), 'fill(stroked, src, options)', 'stroke does not pass src and options unchanged to fill')
    stroked = strip_all(ct[2][1])
    ok = is_call(stroked, 'stroke::stroke_to_path') and strip_all(stroked[2][1]) in (('param', 4), ('deref', ('param', 4)))
    ctx.check(ok, R, key + '|stroke_to_path', call_line(b, bi), 'fill(stroke_to_path(path, style))', 'the path filled is not stroke_to_path(_, style)')
    if not ok:
        return
    src_path = strip_all(stroked[2][0])
    alts = an.phi_terms(src_path) if src_path[0] in ('phi', 'rec') else ([shared.resolve_mem(an, src_path)] if src_path[0] == 'mem' else [src_path])
    if src_path[0] == 'mem':
        alts = [an.def_term(d) if d.kind != 'call' else an.call_term(d.bb) for d in an.defs_of.get(src_path[1], []) if not d.partial]
    flat = [t for t in alts if is_call(t, 'Path::flatten')]
    dashed = [t for t in alts if is_call(t, 'dash::dash_path')]
    ok = len(flat) == 1 and len(dashed) == 1
    if ok:
        d0 = dashed[0]
        r1, n1 = field_path(strip_all(d0[2][1]))
        r2, n2 = field_path(strip_all(d0[2][2]))
        ok = r1 == ('param', 4) and n1[:1] == ['dash_array'] and r2 == ('param', 4) and n2 == ['dash_offset']
        # dash input is the flattened path
        D = Deps(an)
        D.closure(d0[2][0])
        ok = ok and any(x == flat[0] for x in D.visited)
        # dashing skipped only when the array is empty
        gs = normalized_guards(ctx, b, d0[3])
        ok = ok and any(op == '!true' and is_call(g, 'is_empty') and field_path(strip_all(g[2][0]))[1][:1] == ['dash_array'] for op, g, b2, si in gs)
    ctx.check(ok, R, key + '|flatten -> dash', b.loc(), 'path = flatten(..); if !dash_array.is_empty() { dash_path(&path, &style.dash_array, style.dash_offset) }', 'stroke does not dash the flattened path with (style.dash_array, style.dash_offset) exactly when the dash array is non-empty')


# ====================================================================== C09
def named_local(b, name):
    for i, l in enumerate(b.locals):
        if l.get('name') == name:
            return i
    return None


def chop_loops(ctx, b, m):
    """{arm variant: (header block, blocks)} for the float-conditioned loops inside the LineTo / Close arms"""
    an = ctx.an(b)
    cfg = an.cfg
    out = {}
    loops = cfg.loops()
    for v in ('LineTo', 'Close'):
        if v not in m.arms:
            continue
        region = arm_region(cfg, m.bb, m.arms[v])
        for h, blocks in loops.items():
            if h not in region or not blocks <= region:
                continue
            # the loop test (in the header block) is a float comparison
            isf = False
            t = b.blocks[h]['t']
            if t['k'] == 'switch' and t.get('ty') == 'bool':
                for st in b.blocks[h]['st']:
                    if st['k'] == 'assign' and st['rv']['k'] == 'binop' and st['rv']['op'] in ('Gt', 'Lt', 'Ge', 'Le') and st['rv'].get('ty') in ('f32', 'f64'):
                        isf = True
            if isf:
                out[v] = (h, blocks)
    return out


def loop_updates(ctx, b, blocks):
    """line-free description of what a loop body changes: assigned user variables (with field) and builder calls"""
    an = ctx.an(b)
    ups = set()
    for bi in blocks:
        for k2, s in enumerate(b.blocks[bi]['st']):
            if s['k'] != 'assign':
                continue
            p = s['p']
            nm = b.locals[p['l']].get('name')
            if nm and all(e['k'] == 'field' for e in p['pr']):
                ups.add(('set', nm) + tuple(e['n'] for e in p['pr']))
        t = b.blocks[bi]['t']
        if t['k'] == 'call':
            c = callee_of(t)
            if c and (c['def'].startswith(PB) or c['def'].endswith('Vec::<T, A>::push')):
                ct = an.call_term(bi)
                recv = strip_all(ct[2][0])
                rn = b.local_name(recv[1]) if recv[0] in ('mem', 'phi') else '?'
                ups.add(('call', c['def'].split('::')[-1], rn))
            dp = t['dest']
            nm = b.locals[dp['l']].get('name')
            if nm and not dp['pr']:
                ups.add(('set', nm))
    return ups



def cursor_and_start(ctx, b, m):
    """(cursor local, subpath-start local) of a path consumer, found structurally: the cursor is the named Option local
    assigned Some(<LineTo payload>) on every path of the LineTo arm; the start record is the other named Option local
    assigned Some(<MoveTo payload>) in the MoveTo arm"""
    import props.c16 as c16
    an = ctx.an(b)
    curs = c16.cursor_locals(ctx, b, m)
    starts = set()
    if 'MoveTo' in m.arms:
        region = arm_region(an.cfg, m.bb, m.arms['MoveTo'])
        for d in an.defs:
            if d.kind != 'assign' or d.partial or d.bb not in region or not b.locals[d.local].get('name'):
                continue
            t = an.def_term(d)
            if t[0] == 'agg' and (t[2] or '').endswith('Option') and t[3] == 'Some' and c16.payload(t[4][0][1], 'MoveTo', 0):
                starts.add(d.local)
    starts -= curs
    # state lives across ops: a temporary that exists only inside the MoveTo arm is not the start record
    arm_blocks = set()
    for tgt in m.arms.values():
        arm_blocks |= arm_region(an.cfg, m.bb, tgt)
    starts = set(l for l in starts if any(d.bb not in arm_blocks and d.bb != m.bb and d.kind != 'param' for d in an.defs_of.get(l, [])))
    if len(curs) == 1 and len(starts) == 1:
        return list(curs)[0], list(starts)[0]
    return None

def r09_1(ctx):
    """dash state restarted for every subpath"""
    R = 'R09.1'
    b = ctx.body(DASH, R)
    an = ctx.an(b)
    cfg = an.cfg
    key = 'dash::dash_path'
    m = op_match(ctx, b, R)
    if m is None:
        return
    loops = cfg.loops()
    op_header = None
    for h, bl in loops.items():
        if m.bb in bl and (op_header is None or len(bl) > len(loops[op_header])):
            op_header = h
    op_blocks = loops.get(op_header, set()) if op_header is not None else set()
    ds_locals = [l for l in an.defs_of if b.local_ty(l).endswith('DashState')]
    # the running state: the DashState variable whose fields are updated inside the op loop
    running = [l for l in ds_locals if b.locals[l].get('name') and any(d.partial and d.bb in op_blocks for d in an.defs_of[l])]
    # the saved state: a DashState variable defined once, before the op loop, and never touched again
    saved = [l for l in ds_locals if b.locals[l].get('name') and l not in running and len(an.defs_of[l]) == 1 and not an.defs_of[l][0].partial
             and an.defs_of[l][0].kind in ('assign', 'call') and op_header is not None and cfg.dominates(an.defs_of[l][0].bb, op_header) and an.defs_of[l][0].bb not in op_blocks]
    # ... that holds the same value the running state starts the op loop with
    def val(l):
        d = an.defs_of[l][0]
        return nosite(an.def_term(d))
    if not ctx.check(len(running) == 1 and len(saved) >= 1, R, key + '|saved state', b.loc(), 'running dash state and a saved copy of its initial value found',
                     'cannot find the running dash state and the saved initial dash state (a DashState defined once before the op loop): fail closed'):
        return
    state = running[0]
    entry_defs = [d for d in an.reaching(state, op_header, 0) if d.bb not in op_blocks]
    saved = [l for l in saved if any(not d.partial and (nosite(an.def_term(d)) == val(l) or nosite(an.def_term(d)) == nosite(('mem', l)) or nosite(an.def_term(d)) == nosite(an.local_term(d.bb, d.idx, l))) for d in an.defs_of[state] if d.bb not in op_blocks and d.kind == 'assign')
             or val(l) in [nosite(an.local_term(an.defs_of[l][0].bb, an.defs_of[l][0].idx, state))]]
    if not ctx.check(len(saved) >= 1, R, key + '|saved state', b.loc(), 'saved copy is the value the running state enters the op loop with',
                     'no DashState saved before the op loop equals the running state at loop entry (the copy must be taken after the offset normalisation): fail closed'):
        return
    saved_vals = set(val(l) for l in saved)
    idef = an.defs_of[saved[0]][0]
    # normalisation loops: loops before the op loop that update a DashState
    norm = [h for h, bl in loops.items() if m.bb not in bl and not (op_blocks and h in op_blocks)
            and any(st['k'] == 'assign' and st['p']['l'] in ds_locals and st['p']['pr'] for x in bl for st in b.blocks[x]['st'])]
    ok = bool(norm) and all(cfg.dominates(h, idef.bb) and idef.bb not in loops[h] for h in norm)
    ctx.check(ok, R, key + '|captured after normalisation', b.loc(idef.node['sp']) if idef.node else b.loc(), 'initial state captured after the offset normalisation loop and before the op loop', 'the saved initial dash state is not captured between the offset normalisation loop and the op loop')
    def restores(region):
        out = set()
        for d in an.defs_of.get(state, []):
            if d.bb in region and d.kind == 'assign' and not d.partial:
                t = nosite(an.def_term(d))
                if t in saved_vals or any(t == nosite(an.local_term(d.bb, d.idx, l)) for l in saved):
                    out.add(d.bb)
        return out
    stop = cfg.ipdom(m.bb)
    if 'MoveTo' in m.arms:
        region = arm_region(cfg, m.bb, m.arms['MoveTo'])
        rs = restores(region)
        ok, _p = cfg.must_pass_through(m.arms['MoveTo'], rs, exits=[stop] if stop is not None else None)
        ctx.check(ok and bool(rs), R, key + '|MoveTo restarts the pattern', b.loc(), 'state = initial on every path of the MoveTo arm', 'the MoveTo arm does not restore the initial dash state on every path: the pattern is not restarted for the new subpath')
    cl = chop_loops(ctx, b, m)
    if 'Close' in m.arms and 'Close' in cl:
        region = arm_region(cfg, m.bb, m.arms['Close'])
        rs = restores(region)
        h, bl = cl['Close']
        ok, _p = cfg.must_pass_through(h, rs, exits=[stop] if stop is not None else None)
        ctx.check(ok and bool(rs), R, key + '|Close restarts the pattern', b.loc(), 'state = initial on every path after the closing segment was chopped', 'after chopping the closing segment the Close arm does not restore the initial dash state on every path')
    else:
        ctx.fail(R, key + '|Close restarts the pattern', b.loc(), 'cannot find the chopping loop of the Close arm (fail closed)')


def r09_2(ctx):
    """the two chopping loops update the same state"""
    R = 'R09.2'
    b = ctx.body(DASH, R)
    key = 'dash::dash_path'
    m = op_match(ctx, b, R)
    if m is None:
        return
    cl = chop_loops(ctx, b, m)
    if not ctx.check(set(cl) == {'LineTo', 'Close'}, R, key + '|two chopping loops', b.loc(), 'chopping loops in LineTo and Close arms', 'cannot find the float-conditioned chopping loops of the LineTo and Close arms (found %s): fail closed' % sorted(cl)):
        return
    ref = loop_updates(ctx, b, cl['LineTo'][1])
    got = loop_updates(ctx, b, cl['Close'][1])
    need = {('set', 'state', 'on'), ('set', 'state', 'index'), ('set', 'state', 'remaining_length')}
    ctx.check(need <= ref and len(ref) >= 8, R, key + '|reference loop (positive control)', b.loc(), 'LineTo loop updates: %s' % sorted(ref), 'the LineTo chopping loop no longer toggles/advances the dash state (%s): fail closed' % sorted(ref))
    missing = sorted(ref - got)
    extra = sorted(got - ref)
    ctx.check(not missing and not extra, R, key + '|sibling loops agree', b.loc(), 'Close loop updates the same state as the LineTo loop',
              'the loop that chops the closing segment does not update the same state as the loop that chops ordinary segments: missing %s, extra %s — e.g. without clearing is_first_segment two separate dashes on the closing segment are appended to the same buffered polyline and the gap between them is painted' % (missing, extra))


def r09_3(ctx):
    """the buffered first dash is never dropped unflushed"""
    R = 'R09.3'
    b = ctx.body(DASH, R)
    an = ctx.an(b)
    cfg = an.cfg
    key = 'dash::dash_path'
    buf = None
    for i, l in enumerate(b.locals):
        if l.get('name') and l['ty'].startswith('std::vec::Vec<euclid::Point2D'):
            buf = i
    if not ctx.check(buf is not None, R, key + '|buffer', b.loc(), 'first-dash buffer found', 'cannot find the Vec<Point> that buffers the first dash (fail closed)'):
        return
    def is_buf(t):
        t = strip_all(t)
        r0, n0 = field_path(t)
        return r0 in (('mem', buf), ('phi', buf)) or (r0[0] in ('mem', 'phi') and r0[1] == buf)
    pushes = [bi for bi, d, ct in calls_in(ctx, b) if d and d.endswith('Vec::<T, A>::push') and is_buf(ct[2][0])]
    # kill points: re-initialisation of the buffer, and returning the dashed path
    kills = []
    for d in an.defs_of.get(buf, []):
        if d.kind in ('assign', 'call') and not d.partial and d.bb in cfg.reach:
            t = an.def_term(d) if d.kind == 'assign' else an.call_term(d.bb)
            if is_call(strip_all(t), 'Vec::<T>::new'):
                kills.append((d.bb, 're-initialised'))
    for bi, d, ct in calls_in(ctx, b):
        if d == PB + 'finish':
            kills.append((bi, 'dropped at return'))
    # flush blocks: builder calls whose arguments read the buffer's elements
    flush = set()
    for bi, d, ct in calls_in(ctx, b):
        if d in (PB + 'line_to', PB + 'move_to'):
            D = Deps(an)
            for a in ct[2][1:]:
                D.closure(a)
                if any((x[0] in ('mem', 'phi') and x[1] == buf) for x in (D.visited | D.touched)):
                    flush.add(bi)
    # empty edges: switches on len(buf) > 0 / == 0 / is_empty(buf)
    empty_edges = set()
    for si, t in b.terminators('switch'):
        if si not in cfg.reach or t.get('ty') != 'bool':
            continue
        c = an.term_at(si, len(b.blocks[si]['st']), t['o'])
        neg = False
        while c[0] == 'un' and c[1] == 'Not':
            c, neg = c[2], not neg
        false_t = [tt for v, tt in t['targets'] if v == '0']
        true_t = t['otherwise']
        if not false_t:
            continue
        false_t = false_t[0]
        empty_when = None
        if c[0] == 'bin' and c[1] in ('Gt', 'Ne') and const_val(c[3]) == 0 and is_call(strip_all(c[2]), '::len') and is_buf(strip_all(c[2])[2][0]):
            empty_when = False
        elif c[0] == 'bin' and c[1] == 'Eq' and const_val(c[3]) == 0 and is_call(strip_all(c[2]), '::len') and is_buf(strip_all(c[2])[2][0]):
            empty_when = True
        elif is_call(c, 'is_empty') and is_buf(c[2][0]):
            empty_when = True
        if empty_when is None:
            continue
        if neg:
            empty_when = not empty_when
        empty_edges.add((si, true_t if empty_when else false_t))
    # exhausting an iteration over the buffer whose body emits every element is as good as a flush:
    # the None edge of `next()` on an iterator derived from the buffer, when every cycle of that loop passes a flush block
    loops = cfg.loops()
    for mm in matches(ctx, b, 'Option'):
        sc = strip_all(mm.scrut)
        # buf.split_first() / first() / last() / split_last() are None exactly when the buffer is empty
        if is_call(sc, '::split_first', '::first', '::last', '::split_last') and len(sc[2]) == 1 and 'slice' in sc[1] and is_buf(sc[2][0]):
            none_t = mm.arms.get('None', mm.otherwise)
            if none_t is not None:
                empty_edges.add((mm.bb, none_t))
            continue
        if not is_call(sc, 'Iterator::next'):
            continue
        D = Deps(an)
        D.closure(sc[2][0])
        if not any((x[0] in ('mem', 'phi') and x[1] == buf) for x in (D.visited | D.touched)):
            continue
        none_t = mm.arms.get('None', mm.otherwise)
        for h, bl in loops.items():
            if mm.bb in bl and none_t is not None and none_t not in bl:
                if any(f in bl for f in flush) and not cfg.cyclic_without(bl, flush & bl):
                    empty_edges.add((mm.bb, none_t))
    ctx.check(len(pushes) >= 2 and len(flush) >= 3 and len(empty_edges) >= 3 and len(kills) >= 3, R, key + '|sites (positive control)', b.loc(),
              '%d pushes, %d flush sites, %d emptiness tests, %d kill points' % (len(pushes), len(flush), len(empty_edges), len(kills)),
              'cannot recover the buffer protocol (pushes %d, flushes %d, emptiness tests %d, kills %d): fail closed' % (len(pushes), len(flush), len(empty_edges), len(kills)))
    # search: a path push -> kill that avoids flush blocks and empty edges
    def reach_avoiding(start):
        seen = {start: None}
        st = [start]
        while st:
            x = st.pop()
            for y in cfg.succ[x]:
                if (x, y) in empty_edges or y in flush:
                    continue
                # a kill re-initialises: the path ends there (state becomes Empty)
                if y not in seen:
                    seen[y] = x
                    if any(y == kb for kb, _ in kills):
                        continue
                    st.append(y)
        return seen

    def path_to(seen, y):
        p = []
        while y is not None:
            p.append(y)
            y = seen[y]
        return p[::-1]
    bad = {}
    for p in pushes:
        r = reach_avoiding(p)
        for kb, what in kills:
            if kb in r:
                bad.setdefault((kb, what), []).append((p, path_to(r, kb)))
    for (kb, what), ps in sorted(bad.items()):
        arm = 'Close arm' if True else ''
        ctx.fail(R, key + '|buffer %s unflushed@%s' % (what, 'return' if 'return' in what else ('Close' if any(kb in arm_region(cfg, mm.bb, mm.arms.get('Close', -1)) for mm in matches(ctx, b, 'PathOp') if 'Close' in mm.arms) else 'MoveTo')),
                 b.loc(b.blocks[kb]['st'][-1]['sp'] if b.blocks[kb]['st'] else b.blocks[kb]['t']['sp']),
                 'the buffered first dash can reach the point where the buffer is %s without having been emitted and without an emptiness test (e.g. push at bb%d, then blocks %s): the outline buffered so far is silently discarded (a closed subpath shorter than its first dash paints nothing)' % (what, ps[-1][0], ps[-1][1]))
    if not bad:
        ctx.ok(R, key + '|buffer never dropped unflushed', b.loc(), 'every path from a push to a re-initialisation/return passes a flush or an emptiness test')


def r09_4(ctx):
    """odd arrays double the period; the offset is reduced modulo the period and made non-negative"""
    R = 'R09.4'
    b = ctx.body(DASH, R)
    an = ctx.an(b)
    key = 'dash::dash_path'
    # the period: the float compared `> 0` to guard everything (R04.4 checks the guard)
    off = 3       # dash_offset parameter
    arr = 2
    dbl = False
    for d in an.defs:
        if d.kind != 'assign' or d.partial:
            continue
        t = an.def_term(d)
        if t[0] == 'bin' and t[1] == 'Mul' and const_val(t[2]) == 2.0 and const_val(t[3]) != 2.0:
            t = ('bin', 'Mul', t[3], t[2])
        if t[0] == 'bin' and t[1] == 'Mul' and const_val(t[3]) == 2.0:
            # the doubled operand is the sum of the array: an accumulator or a fold over it
            if t[2][0] not in ('phi', 'rec'):
                D0 = Deps(an)
                D0.closure(t[2])
                if not any(x == ('param', arr) for x in D0.visited):
                    continue
            gs = normalized_guards(ctx, b, d.bb)
            for op, a, b2, si in gs:
                if op == '!true' and is_call(a, 'is_multiple_of') and len(a[2]) == 2 and const_val(a[2][1]) == 2:
                    a = ('bin', 'Rem', a[2][0], a[2][1])        # !n.is_multiple_of(2) is n % 2 == 1 for an unsigned n
                    op, b2 = 'Eq', ('const', 'usize', '1')
                if op == 'Eq' and const_val(b2) == 1 and a[0] == 'bin' and a[1] == 'Rem' and const_val(a[3]) == 2:
                    n = strip_all(a[2])
                    if (n[0] == 'un' and n[1] == 'PtrMetadata' and strip_all(n[2]) in (('param', arr), ('deref', ('param', arr)))) or (is_call(n, '::len') and strip_all(n[2][0]) in (('param', arr), ('deref', ('param', arr)))):
                        dbl = True
    ctx.check(dbl, R, key + '|odd array doubles the period', b.loc(), 'total *= 2 under dash_array.len() % 2 == 1', 'the period is not doubled exactly when the dash array has an odd number of entries')
    rem = False
    nonneg = False
    rem_defs = []
    def only_defs(t, pred):
        # the value t is (a phi of) definitions all satisfying pred
        t = strip_all(t)
        if t == ('param', off):
            return pred(None)
        if t[0] == 'phi' and t[1] == off:
            return bool(t[2]) and all(pred(an.defs[i]) for i in t[2])
        if t[0] == 'rec':
            return pred(an.defs[t[1]])
        return False
    # the running offset lives in the (re-assigned) parameter or in a local initialised from it
    off_locals = [off]
    for d in an.defs:
        if d.kind != 'assign' or d.partial or d.local == off:
            continue
        t = an.def_term(d)
        if t[0] == 'bin' and t[1] == 'Rem' and strip_all(t[2]) == ('param', off) and b.locals[d.local].get('name'):
            off_locals.append(d.local)
    def only_defs_of(t, pred):
        t = strip_all(t)
        if t == ('param', off):
            return pred(None)
        if t[0] == 'phi' and t[1] in off_locals:
            return bool(t[2]) and all(pred(an.defs[i]) for i in t[2])
        if t[0] == 'rec':
            return pred(an.defs[t[1]])
        return False
    for L in off_locals:
        for d in an.defs_of.get(L, []):
            if d.kind not in ('assign', 'call'):
                continue
            t = an.def_term(d)
            # the reduction is applied to the offset as given (not to an already folded value: `%` keeps the sign, so
            # folding a negative offset by one period first and reducing afterwards leaves offsets below -period negative)
            if t[0] == 'bin' and t[1] == 'Rem' and only_defs_of(t[2], lambda dd: dd is None or dd.kind == 'param'):
                rem = True
                rem_defs.append(d)
            # x.rem_euclid(period): `%` followed by `+ |period|` when negative — both steps in one (the period is positive here)
            if is_call(strip_all(t), 'f32::rem_euclid', 'f32>::rem_euclid', 'rem_euclid') and len(strip_all(t)[2]) == 2 and only_defs_of(strip_all(t)[2][0], lambda dd: dd is None or dd.kind == 'param'):
                rem = True
                nonneg = True
                rem_defs.append(d)
    for L in off_locals:
        for d in an.defs_of.get(L, []):
            if d.kind != 'assign':
                continue
            t = an.def_term(d)
            if t[0] == 'bin' and t[1] == 'Add':
                gs = normalized_guards(ctx, b, d.bb)
                if any(op == 'Lt' and const_val(b2) == 0 and (a[0] in ('phi', 'bin') or a == ('param', off)) for op, a, b2, si in gs):
                    # ... and the fold is applied to the reduced value
                    if (t[2][0] == 'bin' and t[2][1] == 'Rem') or only_defs_of(t[2], lambda dd: dd is not None and dd in rem_defs):
                        nonneg = True
    ctx.check(rem, R, key + '|offset reduced modulo the period', b.loc(), 'dash_offset %= total', 'dash_offset is not reduced modulo the period (large offsets would loop for a long time)')
    ctx.check(nonneg, R, key + '|negative offset wrapped', b.loc(), 'dash_offset += total when the reduced offset is negative', 'a negative dash_offset is not wrapped into [0, period): the fold `+= period` must be applied to the result of `% period` (the other order leaves offsets below -period negative)')


def r09_5(ctx):
    """the new subpath's start is the last thing the MoveTo arm emits (flushing the previous buffered dash afterwards
    would move the builder's current point away from it)"""
    R = 'R09.5'
    b = ctx.body(DASH, R)
    an = ctx.an(b)
    cfg = an.cfg
    key = 'dash::dash_path'
    m = op_match(ctx, b, R)
    if m is None or 'MoveTo' not in m.arms:
        return
    region = arm_region(cfg, m.bb, m.arms['MoveTo'])
    emits = [(bi, d, ct) for bi, d, ct in calls_in(ctx, b, region) if d in (PB + 'move_to', PB + 'line_to', PB + 'close')]
    starts = []
    for bi, d, ct in emits:
        if d == PB + 'move_to':
            a1, a2 = strip_all(ct[2][1]), strip_all(ct[2][2])
            def pay(t, c):
                return t[0] == 'field' and t[2] == c and strip_all(t[1])[0] == 'field' and strip_all(t[1])[4] == 'MoveTo'
            if pay(a1, 'x') and pay(a2, 'y'):
                starts.append(bi)
    if not ctx.check(len(starts) == 1, R, key + '|subpath start emitted', b.loc(), 'MoveTo arm emits move_to(pt) once', 'the MoveTo arm emits the new subpath start %d times, expected once' % len(starts)):
        return
    sb = starts[0]
    later = [bi for bi, d, ct in emits if bi != sb and cfg.can_reach(sb, [bi]) and bi in region]
    # reachability inside the arm only (not around the op loop)
    stop = cfg.ipdom(m.bb)
    later = [bi for bi in later if bi in cfg.reachable_from(sb, removed=[stop] if stop is not None else [])]
    ctx.check(not later, R, key + '|start emitted last', call_line(b, sb), 'nothing is emitted after move_to(pt) in the MoveTo arm',
              'the MoveTo arm emits the new subpath start and then flushes the previous buffered dash: the builder\'s current point is left at the end of the old dash, so the first pieces of the new subpath (and a closed subpath inside its first dash) are connected to the previous subpath by a spurious line')


def r09_1b(ctx):
    """per-subpath state: every user variable that is initialised to a constant before the op loop and reassigned
    inside the LineTo/Close arms is re-initialised to that constant on every path of the MoveTo arm"""
    R = 'R09.1'
    b = ctx.body(DASH, R)
    an = ctx.an(b)
    cfg = an.cfg
    key = 'dash::dash_path'
    m = op_match(ctx, b, R)
    if m is None or 'MoveTo' not in m.arms:
        return
    loops = cfg.loops()
    op_loop = None
    for h, bl in loops.items():
        if m.bb in bl and (op_loop is None or len(bl) > len(loops[op_loop])):
            op_loop = h
    if op_loop is None:
        ctx.fail(R, key + '|op loop', b.loc(), 'cannot find the op loop (fail closed)')
        return
    inloop = loops[op_loop]
    mregion = arm_region(cfg, m.bb, m.arms['MoveTo'])
    work = set()
    for v in ('LineTo', 'Close'):
        if v in m.arms:
            work |= arm_region(cfg, m.bb, m.arms[v])
    stop = cfg.ipdom(m.bb)
    cl_close = chop_loops(ctx, b, m).get('Close')
    cregion = arm_region(cfg, m.bb, m.arms['Close']) if 'Close' in m.arms else set()
    if cl_close is None:
        ctx.fail(R, key + '|Close chop loop', b.loc(), 'cannot find the chopping loop of the Close arm (fail closed)')
    def const_sig(t):
        t = strip_all(t)
        if t[0] == 'const':
            return ('const', t[2])
        if is_call(t, 'Vec::<T>::new') and not t[2]:
            return ('empty-vec',)
        if t[0] == 'agg' and not t[4] and t[3] in ('None',):
            return ('none',)
        return None
    n = 0
    for l, ds in sorted(an.defs_of.items()):
        nm = b.locals[l].get('name')
        if not nm:
            continue
        init = [d for d in ds if d.bb not in inloop and d.kind in ('assign', 'call') and not d.partial and cfg.dominates(d.bb, op_loop)]
        if len(init) != 1:
            continue
        it = an.def_term(init[0]) if init[0].kind == 'assign' else an.call_term(init[0].bb)
        sig = const_sig(it)
        if sig is None or sig == ('none',):
            continue
        # calls that take the variable by `&mut`: mutations (push, drain, ..) and, for a vector, `clear()` = re-initialisation
        mut_calls = []
        for bi2, d2, ct2 in calls_in(ctx, b):
            tys = b.blocks[bi2]['t'].get('arg_tys') or []
            if ct2[2] and tys and tys[0].startswith('&mut') and strip_all(ct2[2][0]) in (('mem', l), ('ref', ('mem', l))):
                mut_calls.append((bi2, d2))
        clears = set(bi2 for bi2, d2 in mut_calls if sig == ('empty-vec',) and d2 and d2.endswith('Vec::<T, A>::clear'))
        if not any(d.bb in work for d in ds) and not any(bi2 in work for bi2, d2 in mut_calls):
            continue
        n += 1
        blocks = set(bi2 for bi2 in clears if bi2 in mregion)
        for d in ds:
            if d.bb in mregion and d.kind in ('assign', 'call') and not d.partial:
                t = an.def_term(d) if d.kind == 'assign' else an.call_term(d.bb)
                if const_sig(t) == sig:
                    blocks.add(d.bb)
        ok, _p = cfg.must_pass_through(m.arms['MoveTo'], blocks, exits=[stop] if stop is not None else None)
        ctx.check(ok and bool(blocks), R, key + '|MoveTo re-initialises ' + nm, b.loc(), '`%s` reset to its initial value %s at every MoveTo' % (nm, sig),
                  'per-subpath state `%s` (initialised to %s before the op loop and changed while dashing a subpath) is not reset on every path of the MoveTo arm: the next subpath starts with the previous subpath\'s value (e.g. a later closed subpath inside its first dash is not closed)' % (nm, sig))
        # what follows a Close continues from the subpath's start as a new subpath (the arm restarts the pattern, R09.1):
        # the same state must be re-initialised once the closing segment has been chopped
        if cl_close is not None:
            blocks = set(bi2 for bi2 in clears if bi2 in cregion and cfg.dominates(cl_close[0], bi2) and bi2 not in cl_close[1])
            for d in ds:
                if d.bb in cregion and d.kind in ('assign', 'call') and not d.partial and cfg.dominates(cl_close[0], d.bb) and d.bb not in cl_close[1]:
                    t = an.def_term(d) if d.kind == 'assign' else an.call_term(d.bb)
                    if const_sig(t) == sig:
                        blocks.add(d.bb)
            ok, _p = cfg.must_pass_through(cl_close[0], blocks, exits=[stop] if stop is not None else None)
            ctx.check(ok and bool(blocks), R, key + '|Close re-initialises ' + nm, b.loc(), '`%s` reset to its initial value %s after the closing segment' % (nm, sig),
                      'per-subpath state `%s` (initialised to %s before the op loop, reset at every MoveTo) is not reset on every path of the Close arm after the closing segment was chopped, although the arm restarts the dash pattern: segments that follow close() (they continue from the subpath\'s start) are dashed with the closed subpath\'s value, e.g. their first dash is appended to the closed outline instead of starting at the start point' % (nm, sig))
    ctx.floor(R, 'per-subpath state variables of dash_path', n, 3)



def _functional_normals(ctx, b, an, cfg, si, true_t, false_t):
    """(value of s1, value of s2) on the interior branch, read off the arguments of the emission calls that follow the
    branch, when the two normals are re-bound by value instead of mutated in place; None if not of that form"""
    def classify(t):
        t = strip_all(t)
        if t in (('param', 4),):
            return 'N1'
        if t in (('param', 5),):
            return 'N2'
        if is_call(t, ST + 'flip') and len(t[2]) == 1:
            inner = classify(t[2][0])
            return ('flip', inner) if inner in ('N1', 'N2') else None
        return None
    def options(t):
        """[(defining block, value term)] of a term that is a phi (or a component of a phi of tuples)"""
        t = strip_all(t)
        if t[0] == 'phi':
            return [(an.defs[i].bb, an.def_term(an.defs[i])) for i in t[2] if an.defs[i].kind == 'assign']
        if t[0] == 'field' and strip_all(t[1])[0] == 'phi':
            out = []
            for i in strip_all(t[1])[2]:
                d = an.defs[i]
                if d.kind != 'assign':
                    return []
                dt_ = strip_all(an.def_term(d))
                if dt_[0] == 'agg' and dt_[1] == 'tuple':
                    comp = dict(dt_[4]).get(t[2])
                    if comp is None:
                        return []
                    out.append((d.bb, comp))
                else:
                    return []
            return out
        return []
    uses = [ct for bi, d, ct in calls_in(ctx, b) if d == ST + 'bevel']
    if not uses or false_t is None:
        return None
    res = None
    for ct in uses:
        vals = []
        for arg in (ct[2][3], ct[2][4]):
            opts = options(arg)
            on_true = [classify(v) for bb, v in opts if cfg.edge_dominates(si, true_t, bb)]
            on_false = [classify(v) for bb, v in opts if cfg.edge_dominates(si, false_t, bb)]
            if len(on_true) != 1 or len(on_false) != 1 or len(opts) != 2:
                return None
            vals.append((on_true[0], on_false[0]))
        if (vals[0][1], vals[1][1]) != ('N1', 'N2'):
            return None           # the exterior branch must leave the normals alone
        cur = (vals[0][0], vals[1][0])
        if res is not None and res != cur:
            return None
        res = cur
    return res

def r04_6(ctx):
    """join_line: for an interior angle both normals are flipped AND exchanged (the join is always built on the outer side
    with the same orientation as the segments, so that the NonZero union of the pieces has no holes)"""
    R = 'R04.6'
    b = ctx.body(ST + 'join_line', R)
    an = ctx.an(b)
    cfg = an.cfg
    key = 'stroke::join_line'
    sw = None
    for si, t in b.terminators('switch'):
        if si in cfg.reach and t.get('ty') == 'bool':
            c = an.term_at(si, len(b.blocks[si]['st']), t['o'])
            if is_call(c, 'stroke::is_interior_angle'):
                sw = (si, t, c)
    if not ctx.check(sw is not None, R, key + '|interior test', b.loc(), 'branch on is_interior_angle found', 'join_line no longer branches on is_interior_angle (fail closed)'):
        return
    si, t, c = sw
    ok_args = strip_all(c[2][0]) in (('param', 4), ('mem', 4)) and strip_all(c[2][1]) in (('param', 5), ('mem', 5))
    ctx.check(ok_args, R, key + '|interior test args', b.loc(), 'is_interior_angle(s1_normal, s2_normal)', 'is_interior_angle is not called on (s1_normal, s2_normal)')
    true_t = t['otherwise']
    stop = cfg.ipdom(si)
    env = {4: 'N1', 5: 'N2'}
    bb = true_t
    steps = 0
    bad = None
    while bb != stop and steps < 50 and bad is None:
        steps += 1
        blk = b.blocks[bb]
        for st_ in blk['st']:
            if st_['k'] != 'assign':
                continue
            p, rv = st_['p'], st_['rv']
            if p['pr']:
                if p['l'] in (4, 5):
                    bad = 'partial store to a normal'
                continue
            if rv['k'] == 'use' and rv['o']['k'] in ('copy', 'move') and not rv['o']['p']['pr']:
                env[p['l']] = env.get(rv['o']['p']['l'], ('?', rv['o']['p']['l']))
            elif rv['k'] in ('ref', 'rawptr') and not rv['p']['pr']:
                env[p['l']] = ('ref', rv['p']['l'])
            elif rv['k'] in ('ref', 'rawptr') and len(rv['p']['pr']) == 1 and rv['p']['pr'][0]['k'] == 'deref':
                env[p['l']] = env.get(rv['p']['l'], ('?', rv['p']['l']))
            else:
                env[p['l']] = ('?', p['l'])
        tm = blk['t']
        if tm['k'] == 'call':
            c2 = callee_of(tm)
            name = c2['def'] if c2 else ''
            args = []
            for a in tm['args']:
                if a['k'] in ('copy', 'move') and not a['p']['pr']:
                    args.append(env.get(a['p']['l'], ('?', a['p']['l'])))
                else:
                    args.append(('?',))
            dl = tm['dest']['l']
            if name == ST + 'flip':
                env[dl] = ('flip', args[0])
            elif name.endswith('mem::swap'):
                if len(args) == 2 and args[0][0] == 'ref' and args[1][0] == 'ref':
                    x, y = args[0][1], args[1][1]
                    env[x], env[y] = env.get(y), env.get(x)
                else:
                    bad = 'swap on unknown places'
            else:
                env[dl] = ('?', dl)
            bb = tm.get('t')
        elif tm['k'] == 'goto':
            bb = tm['t']
        elif tm['k'] in ('drop', 'assert'):
            bb = tm['t']
        else:
            bad = 'branching inside the interior-angle normalisation'
    got = (env.get(4), env.get(5))
    want = (('flip', 'N2'), ('flip', 'N1'))
    if not (bad is None and got == want):
        # the same normalisation written as a value: `let (s1, s2) = if interior { (flip(s2), flip(s1)) } else { (s1, s2) }`
        false_t = [tt for v, tt in t['targets'] if v == '0']
        fv = _functional_normals(ctx, b, an, cfg, si, true_t, false_t[0] if false_t else None)
        if fv is not None:
            got, bad = fv, None
    ctx.check(bad is None and got == want, R, key + '|interior normalisation', b.loc(), 'interior angle: (s1, s2) := (flip(s2), flip(s1))',
              'for an interior angle join_line leaves (s1_normal, s2_normal) = %s%s; it must be (flip(s2), flip(s1)): flipping without exchanging (or the reverse) builds the join with the opposite orientation to the segments, so under the NonZero fill it cancels against overlapping pieces and leaves holes on right-hand turns' % (got, (' (%s)' % bad) if bad else ''))


def r09_6(ctx):
    """after the closing segment the Close arm re-seats both cursors at the subpath's start: cur_pt := Some(start) and the
    output builder gets move_to(start) as the arm's last emission (what follows close() continues from the start point)"""
    R = 'R09.6'
    b = ctx.body(DASH, R)
    an = ctx.an(b)
    cfg = an.cfg
    key = 'dash::dash_path'
    m = op_match(ctx, b, R)
    if m is None or 'Close' not in m.arms:
        return
    cl = chop_loops(ctx, b, m).get('Close')
    if not ctx.check(cl is not None, R, key + '|Close chop loop', b.loc(), 'chopping loop of the Close arm found', 'cannot find the chopping loop of the Close arm (fail closed)'):
        return
    h, lb = cl
    region = arm_region(cfg, m.bb, m.arms['Close'])
    stop = cfg.ipdom(m.bb)
    exits = [stop] if stop is not None else None
    cs = cursor_and_start(ctx, b, m)
    if not ctx.check(cs is not None, R, key + '|cursors', b.loc(), 'cursor and subpath-start record found', 'cannot identify the cursor and the subpath-start record of dash_path (fail closed)'):
        return
    cp, sp = cs
    def is_start(t):
        t = strip_all(t)
        return t[0] == 'field' and t[2] == '0' and t[4] == 'Some' and strip_all(t[1])[0] in ('phi', 'mem', 'rec') and strip_all(t[1])[1] == sp
    # (1) the input cursor
    seat = set()
    for d in an.defs_of.get(cp, []):
        if d.bb in region and d.bb not in lb and d.kind == 'assign' and not d.partial and cfg.dominates(h, d.bb):
            t = an.def_term(d)
            if t[0] == 'agg' and t[3] == 'Some' and t[4] and is_start(t[4][0][1]):
                seat.add(d.bb)
    ok, _p = cfg.must_pass_through(h, seat, exits=exits)
    ctx.check(ok and bool(seat), R, key + '|Close: cur_pt := start', b.loc(), 'cur_pt = Some(start_point) on every path after the closing segment',
              'after the closing segment the Close arm does not set cur_pt to the subpath\'s start on every path: a segment following close() is measured from the wrong point')
    # (2) the output cursor
    emits = [(bi, d, ct) for bi, d, ct in calls_in(ctx, b, region) if d in (PB + 'move_to', PB + 'line_to', PB + 'close')]
    reseat = set()
    for bi, d, ct in emits:
        if d == PB + 'move_to' and bi not in lb and cfg.dominates(h, bi):
            a1, a2 = strip_all(ct[2][1]), strip_all(ct[2][2])
            if a1[0] == 'field' and a1[2] == 'x' and is_start(a1[1]) and a2[0] == 'field' and a2[2] == 'y' and is_start(a2[1]):
                reseat.add(bi)
    ok, _p = cfg.must_pass_through(h, reseat, exits=exits)
    if not ctx.check(ok and bool(reseat), R, key + '|Close: builder re-seated at start', b.loc(), 'dashed.move_to(start_point) on every path after the closing segment',
                     'after the closing segment the Close arm does not move the output builder to the subpath\'s start on every path: the dashes of a segment that follows close() are connected by a spurious line to wherever the closing dash ended (e.g. the end of the re-joined first dash) and the first dash of the continuation is lost'):
        return
    inner = cfg.reachable_from(h, removed=[stop] if stop is not None else [])
    later = sorted(bi for bi, d, ct in emits if bi not in reseat and any(bi in cfg.reachable_from(r, removed=[stop] if stop is not None else []) and bi != r for r in reseat))
    ctx.check(not later, R, key + '|Close: start emitted last', call_line(b, sorted(reseat)[0]), 'nothing is emitted after move_to(start_point) in the Close arm',
              'the Close arm emits further output after re-seating the builder at the subpath\'s start (blocks %s): the builder is left elsewhere' % later)


# ------------------------------------------------------------------ R04.7 orientation of the straight pieces
def emitted_polygons(ctx, b, region=None):
    """closed figures made of move_to/line_to.../close calls only, in dominance order: [[(bb, x term, y term)]]"""
    an = ctx.an(b)
    cfg = an.cfg
    calls = [(bi, d, ct) for bi, d, ct in calls_in(ctx, b, region) if d in (PB + 'move_to', PB + 'line_to', PB + 'close')]
    _snap = list(calls)
    calls = sorted(_snap, key=lambda c: sum(1 for o in _snap if o[0] != c[0] and cfg.dominates(o[0], c[0])))
    groups, cur = [], None
    for bi, d, ct in calls:
        if d == PB + 'move_to':
            cur = [(bi, ct[2][1], ct[2][2])]
        elif d == PB + 'line_to' and cur is not None:
            if not cfg.dominates(cur[-1][0], bi):
                cur = None
                continue
            cur.append((bi, ct[2][1], ct[2][2]))
        elif d == PB + 'close' and cur is not None:
            if cfg.dominates(cur[-1][0], bi) and len(cur) >= 3:
                groups.append(cur)
            cur = None
    return groups


def r04_7(ctx):
    """every straight piece the stroker emits (segment rectangles, square caps, bevels) is wound the same way:
    the pieces are filled together under the NonZero rule, so a piece wound the other way cancels wherever it overlaps another"""
    import geomalg
    from geomalg import VA, shoelace, sign_definite, psubst
    R = 'R04.7'
    va = VA(ctx)
    def positive(leaf):
        if leaf[0] == 'inv':
            return is_call(leaf[1], '::hypot')
        if leaf[0] == 'field' and leaf[2] == 'width':
            return True          # stroke_to_path returns early unless style.width > 0 (R04.4)
        return False
    def xy(base):
        base = nosite(strip_all(base))
        return ('field', base, 'x', 'P', None), ('field', base, 'y', 'P', None)
    signs = {}
    # --- segment rectangles in stroke_to_path
    b = ctx.body(ST + 'stroke_to_path', R)
    an = ctx.an(b)
    m = op_match(ctx, b, R)
    if m is None:
        return
    for v in ('LineTo', 'Close'):
        key = 'stroke::stroke_to_path|%s rectangle' % v
        if v not in m.arms:
            ctx.fail(R, key, b.loc(), 'no %s arm' % v)
            continue
        region = arm_region(an.cfg, m.bb, m.arms[v])
        polys = emitted_polygons(ctx, b, region)
        cn = [ct for bi, d, ct in calls_in(ctx, b, region) if d == ST + 'compute_normal']
        if not ctx.check(len(polys) == 1 and len(cn) == 1, R, key + '|found', b.loc(), 'one closed polygon and one compute_normal call',
                         'expected one closed move_to/line_to/close figure and one compute_normal call in the %s arm, found %d and %d (fail closed)' % (v, len(polys), len(cn))):
            continue
        A, B = cn[0][2][0], cn[0][2][1]
        P = shoelace([(va.sp(x), va.sp(y)) for bi, x, y in polys[0]])
        (ax, ay), (bx, by) = xy(A), xy(B)
        shift = {ax: Poly(), ay: Poly(), bx: Poly.leaf(bx) - Poly.leaf(ax), by: Poly.leaf(by) - Poly.leaf(ay)}
        inv = psubst(P, shift) == P
        P0 = psubst(P, {ax: Poly(), ay: Poly()})
        sg = sign_definite(P0, positive)
        loc = call_line(b, polys[0][0][0])
        if ctx.check(inv and sg in (1, -1), R, key + '|orientation decidable', loc, 'signed area = %s (translation invariant, one sign)' % P0.show(b),
                     'cannot decide the orientation of the %s rectangle: its signed area %s is not a translation-invariant polynomial of one sign in the segment vector (fail closed)' % (v, P0.show(b)[:300])):
            signs[v + ' rectangle'] = (sg, loc)
    # --- square cap
    cb = ctx.body(ST + 'cap_line', R)
    can = ctx.an(cb)
    key = 'stroke::cap_line|Square'
    vp = shared.variant_call_paths(ctx, cb, lambda t: field_path(t) == (('param', 2), ['cap']), 'raqote::stroke::LineCap')
    sq_paths = (vp or {}).get('Square') or []
    if len(sq_paths) == 1:
        # the closed figure emitted on the Square path: move_to, line_to.., close in path order
        polys = []
        cur = None
        for bi, d, ct in sq_paths[0]:
            if d == PB + 'move_to':
                cur = [(bi, ct[2][1], ct[2][2])]
            elif d == PB + 'line_to' and cur is not None:
                cur.append((bi, ct[2][1], ct[2][2]))
            elif d == PB + 'close' and cur is not None:
                if len(cur) >= 3:
                    polys.append(cur)
                cur = None
        if ctx.check(len(polys) == 1, R, key + '|found', cb.loc(), 'one closed polygon', 'expected one closed move_to/line_to/close figure in the Square arm, found %d (fail closed)' % len(polys)):
            P = shoelace([(va.sp(x), va.sp(y)) for bi, x, y in polys[0]])
            px, py = xy(('param', 3))
            inv = px not in P.leaves() and py not in P.leaves()
            sg = sign_definite(P, positive)
            loc = call_line(cb, polys[0][0][0])
            if ctx.check(inv and sg in (1, -1), R, key + '|orientation decidable', loc, 'signed area = %s' % P.show(cb),
                         'cannot decide the orientation of the square cap: its signed area %s is not a position-independent polynomial of one sign (fail closed)' % P.show(cb)[:300]):
                # the cap is called with the segment's own normal at the end and the flipped normal at the beginning: in both cases
                # (normal.y, -normal.x) points away from the stroke, i.e. the cap's `normal` relates to its forward direction as a segment's normal does
                signs['square cap'] = (sg, loc)
    else:
        ctx.fail(R, key + '|found', cb.loc(), 'cannot find the Square arm of cap_line (fail closed)')
    # --- bevel, relative to the interior-angle test that join_line normalises with (R04.6)
    bb_ = ctx.body(ST + 'bevel', R)
    key = 'stroke::bevel'
    polys = emitted_polygons(ctx, bb_)
    ib = ctx.body(ST + 'is_interior_angle', R)
    ian = ctx.an(ib)
    tests = []
    for si, t in ib.terminators('switch'):
        if si in ian.cfg.reach and t.get('ty') == 'bool':
            c = ian.term_at(si, len(ib.blocks[si]['st']), t['o'])
            if c[0] == 'bin' and c[1] in ('Gt', 'Lt') and const_val(c[3]) == 0:
                tests.append((c[1], c[2]))
            elif c[0] == 'bin' and c[1] in ('Gt', 'Lt') and const_val(c[2]) == 0:
                tests.append((CMP_SWAP[c[1]], c[3]))        # 0 < X  is  X > 0
    if ctx.check(len(polys) == 1 and len(tests) == 1, R, key + '|found', bb_.loc(), 'bevel polygon and the cross-product test of is_interior_angle',
                 'expected one closed figure in bevel() and one `<cross product> > 0` test in is_interior_angle, found %d and %d (fail closed)' % (len(polys), len(tests))):
        P = shoelace([(va.sp(x), va.sp(y)) for bi, x, y in polys[0]])
        op, tt = tests[0]
        T = va.sp(geomalg.tsubst(nosite(tt), {1: ('param', 4), 2: ('param', 5)}))
        if op == 'Lt':
            T = -T
        (s1x, s1y), (s2x, s2y) = xy(('param', 4)), xy(('param', 5))
        anti = psubst(T, {s1x: -Poly.leaf(s2x), s1y: -Poly.leaf(s2y), s2x: -Poly.leaf(s1x), s2y: -Poly.leaf(s1y)}) == -T
        fl = va.vec(('call', ST + 'flip', (('param', 1),), 0))
        vx, vy = xy(('param', 1))
        flip_neg = fl[0] == -Poly.leaf(vx) and fl[1] == -Poly.leaf(vy)
        ctx.check(anti and flip_neg, R, 'stroke::is_interior_angle|antisymmetric', ib.loc(), 'interior(a, b) tests an antisymmetric form and flip negates',
                  'is_interior_angle does not test an antisymmetric form T(a, b) = -T(-b, -a), or flip() is not the negation: after join_line\'s normalisation (s1, s2) := (flip(s2), flip(s1)) the join is no longer known to be on the outer side')
        # P == kappa * O^2 * T with O the half width
        wl = [l for l in P.leaves() if l[0] == 'field' and l[2] == 'width']
        if not wl:
            # the half width handed in as a scalar parameter (bevel(dest, offset, ..)): any real squared is >= 0 as well
            wl = [l for l in P.leaves() if l[0] == 'param' and l not in T.leaves() and (bb_.locals[l[1]].get('ty') or '') == 'f32']
        kappa = None
        if len(wl) == 1:
            W = Poly.leaf(wl[0])
            for k in (Fraction(1, 4), Fraction(-1, 4), Fraction(1), Fraction(-1), Fraction(1, 2), Fraction(-1, 2)):
                if P == Poly.const(k) * W * W * T:
                    kappa = k
        loc = call_line(bb_, polys[0][0][0])
        if ctx.check(kappa is not None, R, key + '|orientation decidable', loc, 'signed area = %s x width^2 x T(s1, s2)' % kappa,
                     'cannot decide the orientation of the bevel: its signed area %s is not a multiple of width^2 x the form tested by is_interior_angle (fail closed)' % P.show(bb_)[:300]):
            # join_line guarantees T(s1, s2) <= 0 when it calls bevel
            signs['bevel'] = (-1 if kappa > 0 else 1, loc)
    want = signs.get('LineTo rectangle', (None, None))[0]
    for name, (sg, loc) in sorted(signs.items()):
        ctx.check(sg == want, R, 'stroke|%s wound like the segments' % name, loc, '%s has the orientation of the segment rectangles' % name,
                  'the %s is wound the opposite way to the segment rectangles (signed area %s vs %s): the stroke outline is filled as one NonZero path, so wherever this piece overlaps another one the windings cancel and the stroke has a hole (e.g. a square cap over a neighbouring dash, a bevel over its segments)' % (name, '> 0' if sg > 0 else '< 0', '> 0' if want and want > 0 else '< 0'))
    ctx.floor(R, 'straight pieces with a decided orientation', len(signs), 4)


def r04_8(ctx):
    """the stroke outline is a NonZero path whatever the winding rule of the stroked path: the pieces overlap and rely on
    the NonZero union; the builder that collects them is a fresh PathBuilder::new() (whose winding is NonZero)"""
    R = 'R04.8'
    b = ctx.body(ST + 'stroke_to_path', R)
    an = ctx.an(b)
    key = 'stroke::stroke_to_path'
    rts = shared.ret_terms(ctx, b)
    ok = bool(rts)
    shown = []
    for t in rts:
        t = strip_all(t)
        good = False
        if is_call(t, PB + 'finish'):
            recv = strip_all(t[2][0])
            if recv[0] in ('mem', 'phi'):
                ds = [d for d in an.defs_of.get(recv[1], []) if not d.partial and d.kind in ('assign', 'call', 'local')]
                terms = [an.call_term(d.bb) if d.kind == 'call' else an.def_term(d) for d in ds]
                shown += [fmt(b, x)[:80] for x in terms]
                good = bool(terms) and all(is_call(strip_all(x), PB + 'new') and not strip_all(x)[2] for x in terms)
        ok = ok and good
    ctx.check(ok, R, key + '|outline winding', b.loc(), 'result = PathBuilder::new()....finish()',
              'the stroke outline is not collected in a fresh PathBuilder::new() (builder initialised by %s): its winding rule can follow the input path, and under EvenOdd the overlapping pieces of the outline (segments, joins, caps) cancel each other' % shown)
    nb = ctx.body(PB + 'new', R)
    rt = shared.ret_terms(ctx, nb)
    okn = len(rt) == 1
    if okn:
        D = Deps(ctx.an(nb))
        D.closure(rt[0])
        okn = any(x[0] == 'agg' and x[2] and x[2].endswith('Winding') and x[3] == 'NonZero' for x in D.visited) and not any(x[0] == 'agg' and x[2] and x[2].endswith('Winding') and x[3] == 'EvenOdd' for x in D.visited)
    ctx.check(okn, R, 'path_builder::PathBuilder::new|NonZero', nb.loc(), 'PathBuilder::new() starts a NonZero path', 'PathBuilder::new() does not start a NonZero path')


def _dash_state_local(ctx, b, m):
    an = ctx.an(b)
    cfg = an.cfg
    loops = cfg.loops()
    op_header = None
    for h, bl in loops.items():
        if m.bb in bl and (op_header is None or len(bl) > len(loops[op_header])):
            op_header = h
    op_blocks = loops.get(op_header, set()) if op_header is not None else set()
    ds_locals = [l for l in an.defs_of if b.local_ty(l).endswith('DashState')]
    running = [l for l in ds_locals if b.locals[l].get('name') and any(d.partial and d.bb in op_blocks for d in an.defs_of[l])]
    return (running[0] if len(running) == 1 else None), op_header, op_blocks


def r09_9(ctx):
    """a dash boundary ends the first dash: wherever the op loop toggles state.on, the first-segment flag (the flag the
    chopping loops test to decide between the first-dash buffer and the output path) is false by the time it is next
    tested and by the end of the op — otherwise the pieces after the boundary are appended to the buffered first dash"""
    R = 'R09.9'
    b = ctx.body(DASH, R)
    an = ctx.an(b)
    cfg = an.cfg
    key = 'dash::dash_path'
    m = op_match(ctx, b, R)
    if m is None:
        return
    state, op_header, op_blocks = _dash_state_local(ctx, b, m)
    cl = chop_loops(ctx, b, m)
    if not ctx.check(state is not None and 'LineTo' in cl, R, key + '|anchors', b.loc(), 'running dash state and LineTo chopping loop found', 'cannot find the running dash state or the LineTo chopping loop (fail closed)'):
        return
    h, lb = cl['LineTo']
    # the first-segment flag: a bool local assigned `false` inside the chopping loop and tested inside it
    def reads(t, l):
        return any(x[0] in ('mem', 'phi') and x[1] == l for x in subterms(t)) or any(x[0] == 'rec' and an.defs[x[1]].local == l for x in subterms(t))
    tested = {}
    for si, t in b.terminators('switch'):
        if si in cfg.reach and t.get('ty') == 'bool':
            c = strip_all(an.term_at(si, len(b.blocks[si]['st']), t['o']))
            if c[0] in ('mem', 'phi', 'rec'):
                l = c[1] if c[0] != 'rec' else an.defs[c[1]].local
                tested.setdefault(l, []).append(si)
    flags = []
    for l in tested:
        if b.local_ty(l) != 'bool' or not any(si in lb for si in tested[l]):
            continue
        if any(d.bb in lb and d.kind == 'assign' and not d.partial and const_val(strip_all(an.def_term(d))) in (0, False, 'false') for d in an.defs_of.get(l, [])):
            flags.append(l)
    if not ctx.check(len(flags) == 1, R, key + '|first-segment flag', b.loc(), 'first-segment flag found', 'cannot find the first-segment flag (a bool cleared and tested inside the chopping loop; found %d candidates): fail closed' % len(flags)):
        return
    flag = flags[0]
    # forward may-analysis over (flag known false?, boundary pending?)
    def transfer_block(bi, st_in):
        out = set(st_in)
        viol = None
        for k2, s in enumerate(b.blocks[bi]['st']):
            if s['k'] != 'assign':
                continue
            p = s['p']
            if p['l'] == flag and not p['pr']:
                v = const_val(strip_all(an.rvalue_term(bi, k2, s['rv'])))
                out = set([('F' if v in (0, False, 'false') else 'U', 0)])
            elif p['l'] == state and not p['pr']:
                out = set((f, 0) for f, pd in out)
            elif p['l'] == state and len(p['pr']) == 1 and p['pr'][0].get('k') == 'field' and p['pr'][0].get('n') == 'on' and bi in op_blocks:
                out = set((f, 1 if f != 'F' else pd) for f, pd in out)
        return out
    IN = {0: frozenset([('U', 0)])}
    work = [0]
    bad = {}
    while work:
        x = work.pop()
        st = transfer_block(x, IN[x])
        t = b.blocks[x]['t']
        edges = []
        if t['k'] == 'switch' and t.get('ty') == 'bool' and x in tested.get(flag, []):
            if any(pd for f, pd in st):
                bad.setdefault('tested', x)
            false_t = [tgt for v, tgt in t['targets'] if v == '0']
            for y in cfg.succ[x]:
                if false_t and y == false_t[0] and y != t['otherwise']:
                    edges.append((y, set(('F', pd) for f, pd in st)))
                else:
                    edges.append((y, st))
        else:
            edges = [(y, st) for y in cfg.succ[x]]
        for y, sy in edges:
            if y == op_header and x in op_blocks and any(pd for f, pd in sy):
                bad.setdefault('end of op', x)
            new = frozenset(IN.get(y, frozenset()) | sy)
            if new != IN.get(y):
                IN[y] = new
                work.append(y)
    toggles = [bi for bi in op_blocks for s in b.blocks[bi]['st'] if s['k'] == 'assign' and s['p']['l'] == state and len(s['p']['pr']) == 1 and s['p']['pr'][0].get('n') == 'on']
    ctx.floor(R, 'toggles of state.on in the op loop', len(toggles), 2)
    # on/off alternates: every store to state.on after the initial one is the negation of its previous value.  (Deriving
    # it from the entry index instead — `index % 2 == 0` — is the same thing for even-length arrays only: an odd-length
    # array is run through twice with dashes and gaps exchanged, so entry i is "on" in one pass and "off" in the next)
    badv = []
    nalt = 0
    allloops = set()
    for h2, bl2 in cfg.loops().items():
        allloops |= bl2
    for bi2, k2, st2 in b.statements():
        if st2['k'] != 'assign' or bi2 not in cfg.reach or bi2 not in allloops:
            continue
        pr2 = st2['p'].get('pr') or []
        if not (pr2 and pr2[-1].get('k') == 'field' and pr2[-1].get('n') == 'on' and (pr2[-1].get('adt') or '').endswith('DashState')):
            continue
        nalt += 1
        v0 = strip_all(an.rvalue_term(bi2, k2, st2['rv']))
        okv = v0[0] == 'un' and v0[1] == 'Not' and strip_all(v0[2])[0] == 'field' and strip_all(v0[2])[2] == 'on'
        if not okv:
            badv.append(((bi2, k2), v0))
    ctx.floor(R, 'stores to state.on inside loops', nalt, 3)
    ctx.check(not badv, R, key + '|on/off alternates', call_line(b, badv[0][0][0]) if badv else b.loc(), 'inside loops state.on is only ever negated',
              'dash_path sets state.on to %s inside a loop instead of negating it: whether an entry is a dash or a gap then follows the entry index, which is wrong on the second pass through an odd-length array' % (fmt(b, badv[0][1])[:80] if badv else ''))
    ctx.check(not bad, R, key + '|a dash boundary clears the first-segment flag', call_line(b, list(bad.values())[0]) if bad else b.loc(), 'after every toggle in the op loop the flag is false before it is tested again and before the op ends',
              'dash_path toggles state.on while the first-segment flag may still be set, and the flag reaches %s unchanged: the next dash is appended to the buffered first dash (the gap is bridged when the buffer is flushed as one polyline)' % ' and '.join('its test' if k == 'tested' else 'the end of the op' for k in bad))


def r09_11(ctx):
    """the pattern position the walk starts from is never an exhausted entry: the last value stored to the running
    state's remaining length before the op loop is `remaining - x` under a dominating comparison that makes x
    strictly smaller than `remaining` (or it is an entry of the dash array itself).  An offset that ends exactly on an
    entry boundary otherwise leaves a zero-length rest: the first chopping iteration then toggles the state and clears
    the first-segment flag before anything was buffered, and on a closed subpath the piece reaching the end is not
    joined to the piece starting at the beginning"""
    R = 'R09.11'
    b = ctx.body(DASH, R)
    an = ctx.an(b)
    cfg = an.cfg
    key = 'dash::dash_path'
    m = op_match(ctx, b, R)
    if m is None:
        return
    state, op_header, op_blocks = _dash_state_local(ctx, b, m)
    if not ctx.check(state is not None and op_header is not None, R, key + '|anchors', b.loc(), 'running dash state and op loop found', 'cannot find the running dash state or the op loop (fail closed)'):
        return
    loops = cfg.loops()
    in_pre_loop = set()
    for h, bl in loops.items():
        if h not in op_blocks:
            in_pre_loop |= set(bl)
    # stores to state.remaining_length ahead of the op loop that are not inside a loop of their own: the last word on
    # the initial value
    finals = []
    # the state may be prepared in a local of its own (an extracted and re-inlined helper) and copied into the running one
    ds_locals = [l for l in an.defs_of if b.local_ty(l).endswith('DashState')]
    for l in ds_locals:
        for d in an.defs_of[l]:
            if d.kind != 'assign' or d.bb in op_blocks or d.bb not in cfg.reach:
                continue
            st = b.blocks[d.bb]['st'][d.idx]
            pr = st['p']['pr']
            if d.partial and pr and pr[-1].get('n') == 'remaining_length' and d.bb not in in_pre_loop and cfg.dominates(d.bb, op_header):
                finals.append((d, st))
    if not ctx.check(len(finals) >= 1, R, key + '|initial rest', b.loc(), 'store of the initial remaining length found',
                     'cannot find the statement that leaves the rest of the starting entry in the dash state ahead of the op loop (fail closed)'):
        return
    # the last one on the way to the op loop: the one every other candidate dominates
    finals.sort(key=lambda x: sum(1 for y in finals if cfg.dominates(y[0].bb, x[0].bb) and (y[0].bb != x[0].bb or y[0].idx <= x[0].idx)))
    d, st = finals[-1]
    rv = st['rv']
    loc = b.loc(st.get('sp'))
    if rv.get('k') != 'binop' or rv.get('op') != 'Sub':
        ctx.fail(R, key + '|initial rest', loc, 'the initial remaining length is not `remaining - consumed`: cannot decide whether it can be zero (fail closed)')
        return
    rem = strip_all(an.term_at(d.bb, d.idx, rv['a']))
    x = strip_all(an.term_at(d.bb, d.idx, rv['b']))
    is_rem = rem[0] == 'field' and 'remaining_length' in repr(rem[1:3])
    strict = False
    weak = None
    for op, a, b2, si in normalized_guards(ctx, b, d.bb):
        if b2 is None:
            continue
        a, b2 = strip_all(a), strip_all(b2)
        if (a, b2) == (x, rem) and op in ('Lt', '!Ge'):
            strict = True
        elif (a, b2) == (x, rem) and op in ('Le', '!Gt'):
            weak = (op, si)
    if strict and is_rem:
        ctx.ok(R, key + '|initial rest positive', loc, 'the consumed part is strictly smaller than the entry it is taken from (%s < %s where the rest is stored)' % (fmt(b, x)[:40], fmt(b, rem)[:40]))
    elif weak:
        ctx.fail(R, key + '|initial rest positive', loc, 'the offset is consumed while it is *greater* than the current entry, so an offset that ends exactly on an entry boundary leaves remaining_length = 0 on the exhausted entry (only %s(%s, %s) holds here): the first segment then toggles the state and clears the first-segment flag before anything is buffered — with the offset on an off->on boundary a closed subpath whose end is on loses the join at its start point (e.g. square 40x40, dashes [10,10,20,13], offset 20)'
                 % (weak[0], fmt(b, x)[:40], fmt(b, rem)[:40]))
    else:
        ctx.fail(R, key + '|initial rest positive', loc, 'no dominating comparison makes the consumed offset strictly smaller than the entry it is subtracted from (%s - %s): cannot show that the walk does not start on an exhausted entry (fail closed)' % (fmt(b, rem)[:40], fmt(b, x)[:40]))


def r09_12(ctx):
    """what dash_path returns is what it built: every returned value is `finish()` of the one PathBuilder the arms emit
    into.  Returning the input path (a "solid pattern" shortcut) or any other path bypasses the pattern walk: whether
    that is right depends on the whole dash array (an odd-length array is repeated twice, so its even entries are gaps as
    well), which the rules do not decide"""
    R = 'R09.12'
    b = ctx.body(DASH, R)
    an = ctx.an(b)
    key = 'dash::dash_path'
    rts = [strip_all(t) for t in shared.ret_terms(ctx, b)]
    ctx.floor(R, 'returned values of dash_path', len(rts), 1)
    bad = [t for t in rts if not (is_call(t, 'PathBuilder::finish') and len(t[2]) == 1)]
    builders = set(repr(strip_all(t[2][0])) for t in rts if is_call(t, 'PathBuilder::finish') and len(t[2]) == 1)
    if bad:
        ctx.fail(R, key + '|returns the built path', b.loc(), 'dash_path can return %s instead of the path it builds: on that route the dash pattern is not applied (e.g. a one-entry array [d] has gaps of length d as well, the array being repeated twice)' % fmt(b, bad[0])[:100])
    elif len(builders) > 1:
        ctx.fail(R, key + '|returns the built path', b.loc(), 'dash_path returns the result of %d different builders: cannot decide which one the arms emit into (fail closed)' % len(builders))
    else:
        ctx.ok(R, key + '|returns the built path', b.loc(), 'all %d returned values are finish() of the builder' % len(rts))


def r09_10(ctx):
    """the chopping loops consume the segment: the length still to be chopped is only ever reduced by the dash length
    just consumed (len -= state.remaining_length), never re-derived from positions — with a non-negative pattern of
    positive period the loop then ends after finitely many dashes whatever rounding does to the points"""
    R = 'R09.10'
    b = ctx.body(DASH, R)
    an = ctx.an(b)
    key = 'dash::dash_path'
    m = op_match(ctx, b, R)
    if m is None:
        return
    state, op_header, op_blocks = _dash_state_local(ctx, b, m)
    cl = chop_loops(ctx, b, m)
    if not ctx.check(state is not None and set(cl) == {'LineTo', 'Close'}, R, key + '|anchors', b.loc(), 'dash state and both chopping loops found', 'cannot find the dash state and the two chopping loops (fail closed)'):
        return
    n = 0
    for v in ('LineTo', 'Close'):
        h, lb = cl[v]
        t = b.blocks[h]['t']
        c = strip_all(an.term_at(h, len(b.blocks[h]['st']), t['o']))
        neg = False
        while c[0] == 'un' and c[1] == 'Not':
            c = strip_all(c[2])
        ok = c[0] == 'bin' and c[1] in ('Gt', 'Lt')
        lenl = None
        if ok:
            a, r = (c[2], c[3]) if c[1] == 'Gt' else (c[3], c[2])
            a, r = strip_all(a), strip_all(r)
            okr = r[0] == 'field' and r[2] == 'remaining_length' and strip_all(r[1])[0] in ('mem', 'phi', 'rec')
            if a[0] in ('phi', 'mem') and okr:
                lenl = a[1]
            elif a[0] == 'rec' and okr:
                lenl = an.defs[a[1]].local
        if not ctx.check(lenl is not None, R, key + '|%s loop test' % v, call_line(b, h), 'while len > state.remaining_length', 'the %s chopping loop is not controlled by `len > state.remaining_length` (fail closed)' % v):
            continue
        ups = [d for d in an.defs_of.get(lenl, []) if d.bb in lb and d.kind in ('assign', 'call')]
        good = bool(ups)
        shown = ''
        for d in ups:
            tt = strip_all(an.def_term(d)) if d.kind == 'assign' else ('call',)
            okd = tt[0] == 'bin' and tt[1] == 'Sub'
            if okd:
                x0, x1 = strip_all(tt[2]), strip_all(tt[3])
                okd = (x0[0] in ('phi', 'mem', 'rec') and (x0[1] == lenl or (x0[0] == 'rec' and an.defs[x0[1]].local == lenl))) and x1[0] == 'field' and x1[2] == 'remaining_length'
            if not okd:
                good = False
                shown = fmt(b, tt) if tt != ('call',) else 'a call result'
        n += 1
        ctx.check(good, R, key + '|%s loop consumes the segment' % v, call_line(b, h), 'len -= state.remaining_length is the only update of len in the loop',
                  'inside the %s chopping loop the remaining length is set to %s instead of being reduced by the dash just consumed: when a dash is shorter than the spacing of floats at the current coordinates the emitted point does not move and the loop never ends' % (v, shown or 'nothing'))
    ctx.floor(R, 'chopping loops', n, 2)


def r09_7(ctx):
    """a dash that is still on when the closing segment ends is drawn up to the subpath's start: on the `on` branch after
    the closing segment was chopped, every path closes the outline (whole subpath on), re-joins a first dash known to be
    non-empty, or emits line_to(start)"""
    R = 'R09.7'
    b = ctx.body(DASH, R)
    an = ctx.an(b)
    cfg = an.cfg
    key = 'dash::dash_path'
    m = op_match(ctx, b, R)
    if m is None or 'Close' not in m.arms:
        return
    cl = chop_loops(ctx, b, m).get('Close')
    if not ctx.check(cl is not None, R, key + '|Close chop loop', b.loc(), 'chopping loop of the Close arm found', 'cannot find the chopping loop of the Close arm (fail closed)'):
        return
    h, lb = cl
    region = arm_region(cfg, m.bb, m.arms['Close'])
    stop = cfg.ipdom(m.bb)
    cs = cursor_and_start(ctx, b, m)
    sp = cs[1] if cs else None
    buf = None
    for i, l in enumerate(b.locals):
        if l.get('name') and l['ty'].startswith('std::vec::Vec<euclid::Point2D'):
            buf = i
    if not ctx.check(sp is not None and buf is not None, R, key + '|anchors', b.loc(), 'start_point and the first-dash buffer found', 'cannot find start_point / the first-dash buffer (fail closed)'):
        return
    def is_start(t):
        t = strip_all(t)
        return t[0] == 'field' and t[2] == '0' and t[4] == 'Some' and strip_all(t[1])[0] in ('phi', 'mem', 'rec') and strip_all(t[1])[1] == sp
    def is_buf(t):
        t = strip_all(t)
        r0, n0 = field_path(t)
        return r0[0] in ('mem', 'phi') and r0[1] == buf
    on_sw = []
    for si, t in b.terminators('switch'):
        if si in region and si not in lb and cfg.dominates(h, si) and t.get('ty') == 'bool':
            c = strip_all(an.term_at(si, len(b.blocks[si]['st']), t['o']))
            if c[0] == 'field' and c[2] == 'on' and (c[3] or '').endswith('DashState'):
                on_sw.append((si, t))
    if not ctx.check(len(on_sw) == 1, R, key + '|on test after the closing segment', b.loc(), 'one test of state.on after the closing segment', 'expected one test of state.on after the closing segment was chopped, found %d (fail closed)' % len(on_sw)):
        return
    si, t = on_sw[0]
    on_t = t['otherwise']
    marked = set()
    for bi, d, ct in calls_in(ctx, b, region):
        if d == PB + 'close':
            marked.add(bi)
        if d == PB + 'line_to':
            a1, a2 = strip_all(ct[2][1]), strip_all(ct[2][2])
            if a1[0] == 'field' and a1[2] == 'x' and is_start(a1[1]) and a2[0] == 'field' and a2[2] == 'y' and is_start(a2[1]):
                marked.add(bi)
    # edges on which the buffered first dash is known to be non-empty, and which lead into a loop that emits it
    for s2, t2 in b.terminators('switch'):
        if s2 not in region or t2.get('ty') != 'bool':
            continue
        c = an.term_at(s2, len(b.blocks[s2]['st']), t2['o'])
        neg = False
        while c[0] == 'un' and c[1] == 'Not':
            c, neg = c[2], not neg
        nonempty_when = None
        if c[0] == 'bin' and c[1] in ('Gt', 'Ne') and const_val(c[3]) == 0 and is_call(strip_all(c[2]), '::len') and is_buf(strip_all(c[2])[2][0]):
            nonempty_when = True
        elif c[0] == 'bin' and c[1] == 'Eq' and const_val(c[3]) == 0 and is_call(strip_all(c[2]), '::len') and is_buf(strip_all(c[2])[2][0]):
            nonempty_when = False
        elif is_call(c, 'is_empty') and is_buf(c[2][0]):
            nonempty_when = False
        if nonempty_when is None:
            continue
        if neg:
            nonempty_when = not nonempty_when
        false_t = [tt for v, tt in t2['targets'] if v == '0']
        tgt = t2['otherwise'] if nonempty_when else (false_t[0] if false_t else None)
        if tgt is None:
            continue
        # the branch emits the buffer: some line_to fed by the buffer is reachable inside the arm from there
        emits = False
        for bi, d, ct in calls_in(ctx, b, cfg.reachable_from(tgt, removed=[stop] if stop is not None else []) & region):
            if d == PB + 'line_to':
                D = Deps(an)
                for a in ct[2][1:]:
                    D.closure(a)
                    if any((x[0] in ('mem', 'phi') and x[1] == buf) for x in (D.visited | D.touched)):
                        emits = True
        if emits:
            marked.add(tgt)
    ok, pth = cfg.must_pass_through(on_t, marked, exits=[stop] if stop is not None else None)
    ctx.check(ok and bool(marked), R, key + '|closing dash reaches the start', b.loc(b.blocks[si]['t'].get('sp')), 'on every `on` path: close(), a non-empty first dash re-joined, or line_to(start)',
              'when the dash pattern is on at the end of a closed subpath there is a path through the Close arm (blocks %s) that neither closes the outline, nor re-joins a first dash known to be non-empty, nor draws to the subpath\'s start: the last dash on the closing segment is not drawn (e.g. an offset that starts the subpath in a gap, so no first dash is buffered)' % pth)


def r09_8(ctx):
    """subpath protocol of dash_path: between ops, whenever there is a current point there is a recorded subpath start
    (a LineTo without a current point starts a subpath at its point, exactly as in Path::flatten, the stroker and the
    fill path): otherwise Close cannot find where to return to and the closing segment of a LineTo-led subpath is
    never dashed"""
    import typestate
    R = 'R09.8'
    b = ctx.body(DASH, R)
    an = ctx.an(b)
    key = 'dash::dash_path'
    m = op_match(ctx, b, R)
    if m is None:
        return
    cs = cursor_and_start(ctx, b, m)
    if not ctx.check(cs is not None, R, key + '|cursors', b.loc(), 'cursor and subpath-start record found', 'cannot identify the cursor and the subpath-start record of dash_path (fail closed)'):
        return
    at = typestate.run(ctx, b, list(cs))
    sts = at.get(m.bb, set())
    ctx.check(('N', 'N') in sts and ('S', 'S') in sts, R, key + '|protocol states (positive control)', b.loc(), 'states between ops: %s' % sorted(sts), 'the typestate interpreter does not reach the op loop with the expected states (%s): fail closed' % sorted(sts))
    ctx.check(('S', 'N') not in sts, R, key + '|cursor implies start', b.loc(), 'no op leaves a current point without a subpath start',
              'an op sequence reaches the op loop with a current point but no subpath start (`%s` is Some while `%s` is None), e.g. a path that begins with line_to: Close then has nowhere to return to, the closing segment is not dashed and the cursor is lost, although flatten, the stroker and fill all treat the first line_to as the subpath start' % (b.local_name(cs[0]), b.local_name(cs[1])))


def stroker_cur_rec(ctx, b, an, m):
    """(cursor locals, first-segment record locals) of stroke_to_path"""
    import props.c16 as c16
    curs = c16.cursor_locals(ctx, b, m)
    # the first-segment record: the named Option local holding a (point, normal) tuple
    recs = [i for i, l in enumerate(b.locals) if l.get('name') and l['ty'].startswith('std::option::Option<(') and 'Vector2D' in l['ty']]
    # state lives across ops: it is initialised before the op loop (parameters of an inlined helper are not)
    _arm_blocks = set()
    for _tgt in m.arms.values():
        _arm_blocks |= arm_region(an.cfg, m.bb, _tgt)
    _inloop = set()
    for _h, _bl in an.cfg.loops().items():
        if m.bb in _bl:
            _inloop |= _bl
    recs = [i for i in recs if any(d.bb not in _arm_blocks and d.bb not in _inloop and d.bb >= 0 and d.kind != 'param' and an.cfg.dominates(d.bb, m.bb) for d in an.defs_of.get(i, []))]
    return curs, recs


def r04_9(ctx):
    """subpath protocol of the stroker: the record of the subpath's first segment (start point and normal) exists only
    while there is a current point (otherwise the caps and the closing join, which need both, are silently skipped)"""
    import typestate
    R = 'R04.9'
    b = ctx.body(ST + 'stroke_to_path', R)
    an = ctx.an(b)
    key = 'stroke::stroke_to_path'
    m = op_match(ctx, b, R)
    if m is None:
        return
    curs, recs = stroker_cur_rec(ctx, b, an, m)
    if not ctx.check(len(curs) == 1 and len(recs) == 1, R, key + '|cursors', b.loc(), 'cursor and first-segment record found', 'cannot identify the cursor and the first-segment record of stroke_to_path (fail closed)'):
        return
    cur, rec = list(curs)[0], recs[0]
    at = typestate.run(ctx, b, [cur, rec])
    sts = at.get(m.bb, set())
    ctx.check(('N', 'N') in sts and ('S', 'S') in sts and ('S', 'N') in sts, R, key + '|protocol states (positive control)', b.loc(), 'states between ops: %s' % sorted(sts), 'the typestate interpreter does not reach the op loop with the expected states (%s): fail closed' % sorted(sts))
    ctx.check(('N', 'S') not in sts, R, key + '|first segment implies cursor', b.loc(), 'no op leaves a first-segment record without a current point',
              'an op sequence leaves `%s` Some while `%s` is None: the end caps / closing join of that subpath are never emitted' % (b.local_name(rec), b.local_name(cur)))


def r04_10(ctx):
    """Close never drops the cursor: whatever follows close() continues from the subpath's start, so an arm entered with
    a current point must leave with one (a subpath that has no segment yet — move_to; close — starts at its move_to point)"""
    import typestate
    R = 'R04.10'
    b = ctx.body(ST + 'stroke_to_path', R)
    an = ctx.an(b)
    key = 'stroke::stroke_to_path'
    m = op_match(ctx, b, R)
    if m is None or 'Close' not in m.arms:
        return
    import props.c16 as c16
    curs = c16.cursor_locals(ctx, b, m)
    recs = [i for i, l in enumerate(b.locals) if l.get('name') and l['ty'].startswith('std::option::Option<(') and 'Vector2D' in l['ty']]
    # state lives across ops: it is initialised before the op loop (parameters of an inlined helper are not)
    _arm_blocks = set()
    for _tgt in m.arms.values():
        _arm_blocks |= arm_region(an.cfg, m.bb, _tgt)
    _inloop = set()
    for _h, _bl in an.cfg.loops().items():
        if m.bb in _bl:
            _inloop |= _bl
    recs = [i for i in recs if any(d.bb not in _arm_blocks and d.bb not in _inloop and d.bb >= 0 and d.kind != 'param' and an.cfg.dominates(d.bb, m.bb) for d in an.defs_of.get(i, []))]
    if not ctx.check(len(curs) == 1 and len(recs) == 1, R, key + '|cursors', b.loc(), 'cursor and first-segment record found', 'cannot identify the cursor and the first-segment record of stroke_to_path (fail closed)'):
        return
    cur, rec = list(curs)[0], recs[0]
    stop = an.cfg.ipdom(m.bb)
    at = typestate.run(ctx, b, [cur, rec], entry={('S', 'N'), ('S', 'S')}, start=m.arms['Close'], stop=stop)
    outs = at.get(stop, set())
    ctx.check(bool(outs) and all(st[0] == 'S' for st in outs), R, key + '|Close keeps the cursor', b.loc(), 'Close arm: cursor Some on entry => Some on exit (exit states %s)' % sorted(outs),
              'the Close arm can be entered with a current point and left without one (exit states %s), e.g. move_to; close; line_to: the subpath has no segment yet, its start is the move_to point, but `%s` becomes None and the following segment is never stroked (fill and flatten continue from the start point)' % (sorted(outs), b.local_name(cur)))


def r04_15(ctx):
    """whether a vertex gets its join and an end gets its cap is not decided by the geometry of the turn: in
    stroke_to_path no ordering comparison of floats other than the width test guards a join_line / cap_line call (an exact
    equality test is let through: the join between equal normals is empty).  The joins of shallow turns are slivers
    only at small widths; their width grows with the stroke width."""
    R = 'R04.15'
    b = ctx.body(ST + 'stroke_to_path', R)
    an = ctx.an(b)
    key = 'stroke::stroke_to_path'
    n = 0
    for bi, d, ct in calls_in(ctx, b):
        if d not in (ST + 'join_line', ST + 'cap_line'):
            continue
        n += 1
        bad = None
        for cond, truth, si in bool_guards(ctx, b, bi):
            # the comparison as the compiler typed it: an ordering test of floats in the guarding block
            fcmp = any(st['k'] == 'assign' and st['rv'].get('k') == 'binop' and st['rv'].get('op') in ('Lt', 'Le', 'Gt', 'Ge') and st['rv'].get('ty') in ('f32', 'f64') for st in b.blocks[si]['st'])
            for x in subterms(cond):
                if x[0] == 'bin' and x[1] in ('Lt', 'Le', 'Gt', 'Ge'):
                    leaves_style = all(strip_all(y)[0] in ('const', 'cnamed') or (field_path(strip_all(y))[0] in (('param', 2), ('deref', ('param', 2))) ) for y in (x[2], x[3]))
                    isfloat = fcmp or any(z[0] == 'const' and z[1] in ('f32', 'f64') for z in subterms(x)) or any(z[0] == 'call' and isinstance(z[1], str) and ('dot' in z[1] or 'cross' in z[1] or 'f32' in z[1]) for z in subterms(x))
                    if not leaves_style and isfloat and bad is None:
                        bad = cond
        ctx.check(bad is None, R, key + '|%s at bb-order %d not conditioned on the turn' % (d.split('::')[-1], n), call_line(b, bi), 'guards: width test, Option states, subpath flags',
                  'a %s call in stroke_to_path is guarded by %s: the %s is left out for some vertices depending on their geometry, although the region it covers scales with the stroke width' % (d.split('::')[-1], fmt(b, bad) if bad else '', 'join' if 'join' in d else 'cap'))
    ctx.floor(R, 'join/cap call sites in stroke_to_path', n, 4)
    # caps close the two ends of an open subpath that has at least one segment: every cap_line call is made where the
    # record of the first segment (the Option holding the start point and its normal) is known to be Some
    for bi, d, ct in calls_in(ctx, b):
        if d != ST + 'cap_line':
            continue
        def is_start_record(t):
            t = strip_all(t)
            return t[0] in ('phi', 'mem', 'rec') and 'Option<(' in b.local_ty(t[1] if t[0] != 'rec' else an.defs[t[1]].local)
        some = any(vv == 'Some' and is_start_record(scr) for scr, adt, vv, sb in variant_guards(ctx, b, bi))
        some = some or any(is_call(strip_all(c), 'is_some') and truth and is_start_record(strip_all(c)[2][0]) or is_call(strip_all(c), 'is_none') and not truth and is_start_record(strip_all(c)[2][0]) for c, truth, si in bool_guards(ctx, b, bi))
        ctx.check(some, R, key + '|cap only on a subpath with a segment', call_line(b, bi), 'cap_line under start record = Some',
                  'stroke_to_path calls cap_line where the subpath has no first segment on record: a cap is stamped on a bare point (e.g. on the zero-length lead-in the dasher puts before a closed outline that is on all the way round, where it sticks out of the joins)')


def r04_12(ctx):
    """the miter-limit test: a miter is drawn iff 2 <= miter_limit^2 * (1 + s1 . s2) for the two (outward) unit normals
    (miter length / half width = 1 / cos(theta/2) <= miter_limit, with cos(theta) = s1 . s2); decided as a polynomial
    identity of the tested expression, so any algebraically equal spelling is accepted"""
    import geomalg
    R = 'R04.12'
    b = ctx.body(ST + 'join_line', R)
    an = ctx.an(b)
    key = 'stroke::join_line'
    va = geomalg.VA(ctx)
    li = [bi for bi, d, ct in calls_in(ctx, b) if d == ST + 'line_intersection']
    if not ctx.check(len(li) == 1, R, key + '|miter site', b.loc(), 'one line_intersection call', 'expected one line_intersection call in join_line, found %d (fail closed)' % len(li)):
        return
    found = []
    for op, a, b2, si in normalized_guards(ctx, b, li[0]):
        if b2 is None:
            continue
        for lo, hi, o in ((a, b2, op), (b2, a, ('!' if op.startswith('!') else '') + CMP_SWAP[op.lstrip('!')])):
            if const_val(lo) == 2.0 and o == 'Le':
                found.append(hi)
    if not ctx.check(len(found) >= 1, R, key + '|miter test', call_line(b, li[0]), 'the miter point is computed under `2 <= E`', 'the miter point is not computed on the true side of a test `2 <= E` (or `E >= 2`): cannot read the miter-limit test (fail closed)'):
        return
    E = va.sp(found[0])
    lm = [l for l in E.leaves() if isinstance(l, tuple) and l[0] == 'field' and l[2] == 'miter_limit']
    vx = sorted(set(l[1] for l in E.leaves() if isinstance(l, tuple) and len(l) == 5 and l[0] == 'field' and l[2] in ('x', 'y') and l[3] == 'P'), key=repr)
    ok = len(lm) == 1 and len(vx) == 2
    if ok:
        L = Poly.leaf(lm[0])
        def c(base, ax):
            return Poly.leaf(('field', base, ax, 'P', None))
        dot = c(vx[0], 'x') * c(vx[1], 'x') + c(vx[0], 'y') * c(vx[1], 'y')
        ok = E == L * L * (Poly.const(1) + dot)
        # the two vectors are the two normals (parameters 4 and 5, possibly after the interior-angle exchange)
        roots = set()
        for vb in vx:
            r = strip_all(vb)
            while r[0] in ('field', 'deref', 'ref'):
                r = strip_all(r[1])
            roots.add(r[1] if r[0] in ('param', 'mem', 'phi') else None)
        ok = ok and (roots == {4, 5} or all(isinstance(x, int) for x in roots))
    ctx.check(ok, R, key + '|miter limit identity', call_line(b, li[0]), 'tested expression == miter_limit^2 * (1 + s1 . s2)',
              'the miter test compares 2 with %s, which is not miter_limit^2 * (1 + s1 . s2): e.g. with the sign of the dot product lost the test becomes miter_limit^2 * (1 - cos) — right only at right angles — so sharp corners are never bevelled (a long spike is painted outside the stroke) and shallow ones lose their miter' % E.show(b)[:300])


def r04_13(ctx):
    """line_intersection(a, a_perp, b, b_perp) returns the point P with a_perp . (P - a) == 0 and b_perp . (P - b) == 0
    (the miter tip lies on both offset lines); decided as polynomial identities after clearing the denominator, and the
    division is guarded by denom != 0"""
    import geomalg
    from geomalg import VA
    R = 'R04.13'
    q = ST + 'line_intersection'
    b = ctx.body(q, R)
    an = ctx.an(b)
    key = 'stroke::line_intersection'
    va = VA(ctx)
    P = lambda i: ('param', i)
    rts = [t for t in shared.ret_terms(ctx, b) if t[0] == 'agg' and t[3] == 'Some']
    if not ctx.check(len(rts) == 1, R, key + '|result', b.loc(), 'one Some(point) return', 'expected one Some(..) return in line_intersection, found %d (fail closed)' % len(rts)):
        return
    pt = va.vec(dict(rts[0][4])['0'])
    def v(i):
        return va.vec(P(i))
    def dot(u, w):
        return u[0] * w[0] + u[1] * w[1]
    a, ap, bb, bp = v(1), v(2), v(3), v(4)
    e1 = dot(ap, (pt[0] - a[0], pt[1] - a[1]))
    e2 = dot(bp, (pt[0] - bb[0], pt[1] - bb[1]))
    def cleared(p):
        invs = set(l for l in p.leaves() if isinstance(l, tuple) and l and l[0] == 'inv')
        for il in invs:
            D = va.sp(il[1])
            out = Poly()
            for mono, c in p.d.items():
                m = list(mono)
                if il in m:
                    m.remove(il)
                    out = out + Poly({tuple(sorted(m, key=repr)): c})
                else:
                    out = out + Poly({mono: c}) * D
            p = out
        return p
    z1, z2 = cleared(e1), cleared(e2)
    ctx.check(not z1.d and not z2.d, R, key + '|lies on both lines', b.loc(), 'a_perp.(P - a) == 0 and b_perp.(P - b) == 0 identically',
              'the point returned by line_intersection does not lie on both lines: a_perp.(P - a) = %s, b_perp.(P - b) = %s (after clearing the denominator) — the miter tip is misplaced' % (z1.show(b)[:160], z2.show(b)[:160]))
    # the Some return is reached only when the divisor is non-zero
    sb = None
    for r in an.cfg.returns:
        pass
    somes = [bi for bi, k2, s in b.statements() if s['k'] == 'assign' and s['rv']['k'] == 'agg' and s['rv'].get('v') == 'Some' and bi in an.cfg.reach]
    okg = bool(somes)
    for bi in somes:
        gs = normalized_guards(ctx, b, bi)
        okg = okg and any(op in ('Ne', '!Eq') and const_val(b2) == 0 for op, a2, b2, si in gs if b2 is not None)
    ctx.check(okg, R, key + '|parallel lines', b.loc(), 'Some(..) only when the denominator is non-zero', 'line_intersection divides without excluding a zero denominator (parallel normals): the miter point would be infinite/NaN')


def r04_14(ctx):
    """compute_normal(p0, p1) is perpendicular to p1 - p0 (polynomial identity N . (p1 - p0) == 0), both components are
    divided by the same length, and a zero-length segment yields None"""
    import geomalg
    from geomalg import VA
    R = 'R04.14'
    b = ctx.body(ST + 'compute_normal', R)
    an = ctx.an(b)
    key = 'stroke::compute_normal'
    va = VA(ctx)
    rts = [t for t in shared.ret_terms(ctx, b) if t[0] == 'agg' and t[3] == 'Some']
    nones = [t for t in shared.ret_terms(ctx, b) if t[0] == 'agg' and t[3] == 'None']
    if not ctx.check(len(rts) == 1 and len(nones) >= 1, R, key + '|result', b.loc(), 'Some(normal) and None returns', 'expected one Some(..) and a None return in compute_normal (fail closed)'):
        return
    n = va.vec(dict(rts[0][4])['0'])
    p0, p1 = va.vec(('param', 1)), va.vec(('param', 2))
    d = (p1[0] - p0[0], p1[1] - p0[1])
    e = n[0] * d[0] + n[1] * d[1]
    invs = set(l for l in (n[0].leaves() | n[1].leaves()) if isinstance(l, tuple) and l and l[0] == 'inv')
    ctx.check(not e.d and len(invs) == 1 and all(is_call(strip_all(l[1]), '::hypot') or strip_all(l[1])[0] in ('phi', 'rec') for l in invs), R, key + '|perpendicular', b.loc(), 'N . (p1 - p0) == 0, both components over one length',
              'compute_normal does not return a vector perpendicular to the segment with both components divided by the same length (N . (p1 - p0) = %s)' % e.show(b)[:200])
    somes = [bi for bi, k2, s in b.statements() if s['k'] == 'assign' and s['rv']['k'] == 'agg' and s['rv'].get('v') == 'Some' and bi in an.cfg.reach]
    okg = bool(somes)
    for bi in somes:
        gs = normalized_guards(ctx, b, bi)
        okg = okg and any(op in ('Ne', '!Eq') and const_val(b2) == 0 for op, a2, b2, si in gs if b2 is not None)
    ctx.check(okg, R, key + '|zero length', b.loc(), 'Some(..) only for a non-zero length', 'compute_normal divides by the segment length without excluding zero')
