"""R10.6 — the DrawTarget keeps no memory of its own between calls.

C10 makes the pixels a function of the *visible* state (pixel contents, transform, clip stack, layer stack) and the
call's arguments.  The audited DrawTarget has exactly that state plus the shared rasteriser (idle between calls: R10.1/
R10.2) and the path cursor (re-initialised by apply_path: R10.4).  A field added to it is new memory.  The rule decides
what the new field may be:

  * never read outside constructors, or read only after the same call wrote it (scratch) — no memory, fine;
  * read across calls — then it must be a summary of visible state, kept coherent by the *co-write discipline*: it is
    written together with a visible field G (the one most of its writers mutate: that is what it summarises), and then every site in every method
    that mutates G (a store into it, a `&mut` borrow of it — which is how pixels are written and handed out —, a call
    whose result lands in it) has a write of the new field of its own next to it: one that dominates or post-dominates
    the site and is not the write belonging to another mutation site of G.  A `bool`/`Option` cache of "the surface is
    blank" that composite_surface or get_data_mut does not invalidate, or a cached inverse that `self.transform = saved`
    does not refresh, is exactly a mutation site without its write;
  * read across calls but never written together with any visible field — unrelated to the visible state: cannot be a
    function of it (fail closed).

The analysis is done on MIR places (stores, `&mut` borrows, call destinations of `(*self).<field>…`), per method, with
dominators; callee effects are followed through local DrawTarget methods for the new field only ("this call writes F").
"""
from util import *
from terms import subterms

DTQ = 'raqote::draw_target::DrawTarget'
AUDITED = ['width', 'height', 'rasterizer', 'current_point', 'first_point', 'buf', 'clip_stack', 'layer_stack', 'transform']
VISIBLE = ['buf', 'transform', 'clip_stack', 'layer_stack']
CONSTRUCTORS = ('new', 'from_vec', 'from_backing')
# calls that overwrite their receiver completely (a `&mut` borrow that is a definition, not a read-modify-write)
KILLING_CALLS = ('Vec::<T, A>::clear', 'Vec::<T>::clear')


def self_aliases(b):
    """locals that hold `self` itself: local 1, and locals assigned exactly once from such a local by a move, a copy or a
    re-borrow `&mut *x` (what is left of a `&mut self` helper after it was inlined)"""
    blocks = b.blocks if hasattr(b, 'blocks') else b['blocks']
    defs = {}
    for blk in blocks:
        for s in blk['st']:
            if s['k'] == 'assign' and not s['p']['pr']:
                defs.setdefault(s['p']['l'], []).append(s['rv'])
        t = blk['t']
        if t['k'] == 'call' and t.get('dest') is not None and not t['dest']['pr']:
            defs.setdefault(t['dest']['l'], []).append({'k': 'call'})
    al = {1}
    grew = True
    while grew:
        grew = False
        for l, rvs in defs.items():
            if l in al or len(rvs) != 1:
                continue
            rv = rvs[0]
            src = None
            if rv.get('k') == 'use' and rv['o'].get('k') in ('move', 'copy') and not rv['o']['p']['pr']:
                src = rv['o']['p']['l']
            elif rv.get('k') == 'ref' and [e.get('k') for e in rv['p']['pr']] == ['deref']:
                src = rv['p']['l']
            if src in al:
                al.add(l)
                grew = True
    return al


_ALIASES = {1}


def _self_field(place):
    """field name when the place is (*self).<field>[...] with self = local 1 (or an alias of it), else None"""
    if place is None or place.get('l') not in _ALIASES:
        return None
    pr = place.get('pr') or []
    i = 0
    if i < len(pr) and pr[i].get('k') == 'deref':
        i += 1
    if i < len(pr) and pr[i].get('k') == 'field' and (pr[i].get('adt') or '').endswith('draw_target::DrawTarget'):
        return pr[i].get('n'), len(pr) - i - 1
    return None


def _places(node, out):
    """all places mentioned inside an rvalue/operand JSON node"""
    if isinstance(node, dict):
        if 'l' in node and 'pr' in node and isinstance(node.get('pr'), list):
            out.append(node)
        for k, v in node.items():
            if k in ('sp', 'fn'):
                continue
            _places(v, out)
    elif isinstance(node, list):
        for v in node:
            _places(v, out)


def _quiet_without(b, cfg, sb, wb):
    """every path from the site that avoids the write does nothing to memory: no call that is handed a mutable reference or
    raw pointer, no store through a pointer (the borrow taken at the site is dropped unused, e.g. on an early return)"""
    seen = set()
    st = [y for y in cfg.succ[sb] if y != wb]
    while st:
        x = st.pop()
        if x in seen or x == wb:
            continue
        seen.add(x)
        blk = b.blocks[x]
        if blk['t']['k'] == 'call' and any(('&mut' in (ty or '')) or ('*mut' in (ty or '')) or ('*const' in (ty or '')) for ty in (blk['t'].get('arg_tys') or ['&mut'])):
            return False      # only a call that receives a mutable reference or a raw pointer can write through the borrow
        for s in blk['st']:
            if s['k'] == 'assign' and any(e.get('k') == 'deref' for e in (s['p'].get('pr') or [])):
                return False
        for y in cfg.succ[x]:
            st.append(y)
    return True


CLEARING = ('Vec::<T, A>::clear', 'Vec::<T>::clear', 'String::clear', 'VecDeque::<T, A>::clear')


def _uses_of(b, l):
    """[(block, index, node)] of statements / terminators that mention local l as a place root (definitions of l itself
    excluded)"""
    out = []
    blocks = b.blocks
    for bi, blk in enumerate(blocks):
        for k2, s in enumerate(blk['st']):
            ps = []
            if s['k'] == 'assign':
                _places(s['rv'], ps)
                if s['p']['l'] == l and s['p']['pr']:
                    ps.append(s['p'])
            else:
                _places(s, ps)
            if any(p.get('l') == l for p in ps):
                out.append((bi, k2, s))
        t = blk['t']
        ps = []
        _places({k: v for k, v in t.items() if k != 'dest'}, ps)
        if any(p.get('l') == l for p in ps):
            out.append((bi, len(blk['st']), t))
    return out


def emptied_first(ctx, b, l, depth=0):
    """the collection held by (or referred to by) local l is emptied before anything else is done with it: its first use
    — the one that dominates all others — is a clear(), a move/re-borrow into a local for which the same holds, a
    mem::take whose result is treated so, or a call to a local function whose parameter is treated so.  What such a
    buffer carried over from an earlier call is then never observed (its capacity is not observable)."""
    if depth > 5 or l == 0:
        return False            # the return place: the value leaves the function
    ty = b.local_ty(l)
    if not any(k in ty for k in ('std::vec::Vec<', 'std::string::String', 'VecDeque<')):
        return False            # only a growable buffer can be "emptied"
    an = ctx.an(b)
    cfg = an.cfg
    uses = [(bi, i, n) for bi, i, n in _uses_of(b, l) if bi in cfg.reach]
    # drops and storage markers are not uses
    uses = [(bi, i, n) for bi, i, n in uses if not (isinstance(n, dict) and n.get('k') in ('drop', 'storage_dead', 'storage_live'))]
    if not uses:
        return True
    first = None
    for cand in sorted(uses, key=lambda u: (u[0], u[1])):
        if all((cand[0] == u[0] and cand[1] <= u[1]) or (cand[0] != u[0] and cfg.dominates(cand[0], u[0])) for u in uses):
            first = cand
            break
    if first is None:
        return False
    bi, i, n = first
    if n.get('k') == 'assign':
        rv = n['rv']
        tgt = n['p']
        if tgt['pr']:
            return False
        if rv.get('k') == 'use' and rv['o'].get('k') in ('move', 'copy') and rv['o']['p']['l'] == l and not rv['o']['p']['pr']:
            return emptied_first(ctx, b, tgt['l'], depth + 1)
        if rv.get('k') == 'ref' and rv['p']['l'] == l and [e.get('k') for e in rv['p']['pr']] in ([], ['deref']):
            return emptied_first(ctx, b, tgt['l'], depth + 1)
        return False
    if n.get('k') == 'call':
        c = ((n.get('f') or {}).get('fn') or {}).get('def') or ''
        pos = [k for k, a in enumerate(n.get('args') or []) if a.get('p', {}).get('l') == l and not a['p']['pr']]
        if len(pos) != 1:
            return False
        if any(c.endswith(x) for x in CLEARING):
            return True
        if c.endswith('mem::take') or c.endswith('mem::replace'):
            d = n.get('dest')
            return d is not None and not d['pr'] and emptied_first(ctx, b, d['l'], depth + 1)
        cb = ctx.F.body(c)
        if cb is not None and pos[0] + 1 <= cb.argc:
            return emptied_first(ctx, cb, pos[0] + 1, depth + 1)
    return False


def _straight_after(b, sb, wb):
    """wb is reached from sb by straight-line code only"""
    cur = sb
    for _ in range(8):
        t = b.blocks[cur]['t']
        if t['k'] == 'goto':
            cur = t['t']
        elif t['k'] in ('call', 'drop', 'assert') and t.get('t') is not None:
            cur = t['t']
        else:
            return False
        if cur == wb:
            return True
    return False


class MethodFacts:
    """per method: [(kind, field, bb, idx)] with kind in write (whole field stored), part (store below it / &mut
    borrow / call destination: mutation that also depends on the old value), read"""

    def __init__(self, b):
        global _ALIASES
        self.b = b
        self.ev = []
        _ALIASES = self_aliases(b)
        for bi, blk in enumerate(b.blocks):
            for k2, s in enumerate(blk['st']):
                if s['k'] != 'assign':
                    continue
                tgt = _self_field(s['p'])
                if tgt:
                    self.ev.append(('write' if tgt[1] == 0 else 'part', tgt[0], bi, k2))
                rv = s['rv']
                if rv.get('k') == 'ref' and _self_field(rv.get('p')):
                    f, depth = _self_field(rv['p'])
                    self.ev.append(('part' if rv.get('mut') else 'read', f, bi, k2))
                    if rv.get('mut'):
                        self.ev.append(('read', f, bi, k2))
                else:
                    ps = []
                    _places(rv, ps)
                    for p in ps:
                        sf = _self_field(p)
                        if sf:
                            self.ev.append(('read', sf[0], bi, k2))
            t = blk['t']
            n = len(blk['st'])
            if t['k'] == 'call':
                d = _self_field(t.get('dest'))
                if d:
                    self.ev.append(('write' if d[1] == 0 else 'part', d[0], bi, n))
                ps = []
                _places(t.get('args'), ps)
                for p in ps:
                    sf = _self_field(p)
                    if sf:
                        self.ev.append(('read', sf[0], bi, n))
            elif t['k'] == 'switch':
                ps = []
                _places(t.get('o'), ps)
                for p in ps:
                    sf = _self_field(p)
                    if sf:
                        self.ev.append(('read', sf[0], bi, n))

    def of(self, field, kinds):
        return [(k, f, bi, i) for k, f, bi, i in self.ev if f == field and k in kinds]


def r10_6(ctx):
    R = 'R10.6'
    adt = ctx.F.adts.get(DTQ)
    if adt is None or not adt.get('variants'):
        ctx.fail(R, 'anchor|DrawTarget', '-', 'struct DrawTarget not found (fail closed)')
        return
    fields = [f['name'] for f in adt['variants'][0]['fields']]
    missing = [f for f in AUDITED if f not in fields]
    ctx.check(not missing, R, 'draw_target::DrawTarget|audited fields present', '-', 'fields %s' % ', '.join(AUDITED), 'audited DrawTarget fields %s not found: the state model of C10 no longer matches the struct (fail closed)' % missing)
    new = [f for f in fields if f not in AUDITED]
    # methods of DrawTarget taking self by reference
    methods = {}
    for q in sorted(ctx.F.bodies):
        if not q.startswith(DTQ + '::') or '{closure' in q:
            continue
        b = ctx.F.body(q)
        if b.argc and 'DrawTarget' in b.local_ty(1) and b.local_ty(1).startswith('&'):
            methods[q] = b
    mf = {q: MethodFacts(b) for q, b in methods.items()}
    # positive control: the mutation sites of the visible fields that the audit knows
    mut = {g: sorted(short(q) for q in methods if mf[q].of(g, ('write', 'part'))) for g in VISIBLE}
    ctx.floor(R, 'methods that write or mutably borrow self.buf', len(mut['buf']), 3)
    ctx.floor(R, 'methods that write self.transform', len(mut['transform']), 1)
    ctx.floor(R, 'methods that mutate self.clip_stack', len(mut['clip_stack']), 2)
    ctx.floor(R, 'methods that mutate self.layer_stack', len(mut['layer_stack']), 1)
    ctx.note('R10.6 mutators: ' + '; '.join('%s: %s' % (g, ', '.join(x.split('::')[-1] for x in v)) for g, v in mut.items()))
    if not new:
        ctx.ok(R, 'draw_target::DrawTarget|no unaudited field', '-', 'fields are exactly the audited nine: no memory beyond visible state, rasteriser and path cursor')
        return
    # fields of a memo whose lemma another rule verifies (R06.3: the memoised opacity mask, a uniform vector validated on
    # every use against the length and value wanted) hold nothing the caller can observe
    memo_fields = set()
    try:
        import dt
        pb = ctx.F.body(DTQ + '::pop_layer')
        if pb is not None:
            pan = ctx.an(pb)
            for bi, d, ct in calls_in(ctx, pb):
                if d == DTQ + '::composite' and len(ct[2]) > 2:
                    m = strip_all(ct[2][2])
                    if m[0] == 'agg' and m[3] == 'Some':
                        memo = dt.uniform_memo(ctx, pb, pan, m[4][0][1], bi)
                        if memo is not None:
                            for x in subterms(m[4][0][1]):
                                pass
                            # the vector field and its tag field, if any: the new fields pop_layer touches
                            touched = set(f for k, f, bb, i in MethodFacts(pb).ev if f in new)
                            memo_fields |= touched
    except Exception:
        memo_fields = set()
    for F in new:
        key = 'draw_target::DrawTarget.%s' % F
        if F in memo_fields:
            ctx.ok(R, key + '|validated memo', '-', 'new field %s belongs to a memo that is validated on every use (R06.3 memo lemma)' % F)
            continue
        # cross-call reads: a read not dominated by a whole write of F in the same method
        cross = []
        scratch = 0
        for q, b in methods.items():
            if q.split('::')[-1] in CONSTRUCTORS:
                continue
            an = ctx.an(b)
            ws = mf[q].of(F, ('write',))
            # Vec::clear(&mut self.F) and the like define the field
            for bi, t, c in b.calls():
                if c and any(c['def'].endswith(kc) for kc in KILLING_CALLS):
                    for k, f, bb, i in mf[q].of(F, ('part',)):
                        if an.cfg.dominates(bb, bi) and bb != bi or bb == bi:
                            ws.append(('write', F, bi, len(b.blocks[bi]['st'])))
            for k, f, bi, i in mf[q].of(F, ('read', 'part')):
                dominated = any((wb == bi and wi < i) or (wb != bi and an.cfg.dominates(wb, bi)) for _k, _f, wb, wi in ws)
                if not dominated:
                    # a buffer that is handed on and emptied before anything else looks at it carries nothing over
                    st = b.blocks[bi]['st'][i] if i < len(b.blocks[bi]['st']) else None
                    if st is not None and st['k'] == 'assign' and not st['p']['pr'] and st['rv'].get('k') in ('ref', 'use') and emptied_first(ctx, b, st['p']['l']):
                        scratch += 1
                        continue
                    cross.append((q, bi))
        if not cross:
            ctx.ok(R, key + '|no memory', '-', 'new field %s is never read before the same call wrote it%s' % (F, ' (%d hand-overs of a buffer that is emptied first)' % scratch if scratch else ''))
            continue
        # which methods write F (directly, or through a local method they call)
        direct_w = set(q for q in methods if mf[q].of(F, ('write', 'part')))
        writes_f = set(direct_w)
        grew = True
        while grew:
            grew = False
            for q, b in methods.items():
                if q in writes_f:
                    continue
                for bi, t, c in b.calls():
                    if c and c['def'] in writes_f:
                        writes_f.add(q)
                        grew = True
                        break
        # what the field summarises: the visible field(s) that most of its writers mutate in the same method
        cnt = {g: sum(1 for q in direct_w if q.split('::')[-1] not in CONSTRUCTORS and mf[q].of(g, ('write', 'part'))) for g in VISIBLE}
        top = max(cnt.values()) if cnt else 0
        ties = [g for g in VISIBLE if top > 0 and cnt[g] == top]
        if not ties:
            q0, bi0 = cross[0]
            ctx.fail(R, key + '|memory unrelated to visible state', call_line(methods[q0], bi0),
                     'DrawTarget has a new field `%s` that %s reads from an earlier call, and no method writes it together with the pixels, the transform, the clip stack or the layer stack: it is memory of the call history, not a function of the visible state (C10) — cannot be shown coherent (fail closed)' % (F, short(q0)))
            continue
        bad = []
        nsites = 0
        for g in ties:
            for q, b in methods.items():
                if q.split('::')[-1] in CONSTRUCTORS:
                    continue
                an = ctx.an(b)
                cfg = an.cfg
                sites = sorted(set((bi, i) for k, f, bi, i in mf[q].of(g, ('write', 'part'))))
                # calls to local methods that mutate g themselves are sites too (and carry their own F write if the callee has one)
                fw = [(bi, i, None) for k, f, bi, i in mf[q].of(F, ('write', 'part'))]
                callee_sites = {}
                for bi, t, c in b.calls():
                    if c and c['def'] in methods and c['def'] != q:
                        cq = c['def']
                        if cq in writes_f:
                            fw.append((bi, len(b.blocks[bi]['st']), cq))
                        if mf[cq].of(g, ('write', 'part')):
                            callee_sites[bi] = cq
                # a write of a constant (a flag, an invalid marker) can stand for any number of mutations around it; a
                # write of a computed value describes one new state of g: it comes after the mutation it belongs to, and
                # belongs to one mutation only
                def is_marker(wb, wi):
                    blk = b.blocks[wb]
                    if wi >= len(blk['st']):
                        return False
                    rv = blk['st'][wi].get('rv') or {}
                    if rv.get('k') == 'use' and rv['o'].get('k') == 'const':
                        return True
                    if rv.get('k') == 'agg' and not rv.get('ops'):
                        return True
                    # a local that holds a constant or an empty aggregate
                    if rv.get('k') == 'use' and rv['o'].get('k') in ('move', 'copy') and not rv['o']['p']['pr']:
                        ds = [st for bb2 in b.blocks for st in bb2['st'] if st['k'] == 'assign' and st['p']['l'] == rv['o']['p']['l'] and not st['p']['pr']]
                        return len(ds) == 1 and ((ds[0]['rv'].get('k') == 'use' and ds[0]['rv']['o'].get('k') == 'const') or (ds[0]['rv'].get('k') == 'agg' and not ds[0]['rv'].get('ops')))
                    return False
                # a borrow and the store through it in one block are one site
                blocks_with_site = sorted(set(bi for bi, i in sites))
                site_idx = {sb: max(i for bi, i in sites if bi == sb) for sb in blocks_with_site}
                used = set()
                for sb in blocks_with_site:
                    nsites += 1
                    ok = False
                    for wb, wi, via in sorted(fw, key=lambda w: (w[0] != sb, w[0], w[1])):
                        if via is not None and wb in callee_sites and wb != sb:
                            continue      # that write belongs to the callee's own mutation of g
                        if via is None and not is_marker(wb, wi):
                            after = (wb == sb and wi > site_idx[sb]) or (wb != sb and (cfg.postdominates(wb, sb) or _straight_after(b, sb, wb)))
                            if not after or (wb, wi) in used:
                                continue
                            used.add((wb, wi))
                            ok = True
                            break
                        if wb == sb or cfg.dominates(wb, sb) or cfg.postdominates(wb, sb) or _quiet_without(b, cfg, sb, wb):
                            ok = True
                            break
                    if not ok:
                        bad.append((g, q, sb))
        if bad:
            g, q, sb = bad[0]
            others = sorted(set(short(q2).split('::')[-1] for g2, q2, s2 in bad))
            ctx.fail(R, key + '|kept coherent with self.%s' % g, call_line(methods[q], sb),
                     'the new DrawTarget field `%s` is read across calls and is written together with self.%s, so it summarises it — but %s mutates self.%s (a store, a `&mut` borrow or a call result) without a write of `%s` of its own: after that call the field no longer describes the visible state and later calls behave differently from the same calls on a fresh target with the same pixels/transform/clips (%d such sites: %s)'
                     % (F, g, short(q), g, F, len(bad), ', '.join(others)))
        else:
            ctx.ok(R, key + '|kept coherent with %s' % '/'.join(ties), '-', '%d mutation sites of %s each have their own write of %s' % (nsites, '/'.join(ties), F))
