"""Runner support: context handed to the rules, obligations/findings bookkeeping,
known-findings subtraction, evidence writer."""
import json
import os
import time

from facts import Facts, short
from terms import Analysis, Deps
import extract

VERIF = os.path.dirname(os.path.dirname(os.path.abspath(__file__)))


class Finding:
    def __init__(self, rule, key, loc, msg, detail=None):
        self.rule = rule
        self.key = key          # line-free, stable: "<rule>|<function>|<construct>"
        self.loc = loc
        self.msg = msg
        self.detail = detail

    def as_dict(self):
        return {'rule': self.rule, 'key': self.key, 'location': self.loc, 'message': self.msg, 'detail': self.detail}


class AnchorMissing(Exception):
    pass


class Ctx:
    def __init__(self, prop, tier, facts, config):
        self.prop = prop
        self.tier = tier
        self.F = facts
        self.config = config
        self._an = {}
        self.findings = []
        self.obligations = []   # (rule, key, ok, loc, note)
        self.samples = []
        self.notes = []
        self.functions = set()
        self.rules_run = []
        self.cur_rule = None

    # ------------------------------------------------------------- lookups
    def body(self, q, rule=None, optional=False):
        b = self.F.body(q)
        if b is None:
            if optional:
                return None
            self.fail(rule or self.cur_rule or 'anchor', 'anchor|%s' % short(q), '-', 'anchor item %s not found: cannot decide (fail closed)' % q)
            raise AnchorMissing(q)
        self.functions.add(b.q)
        return b

    def an(self, body):
        a = self._an.get(body.q)
        if a is None:
            a = Analysis(body)
            self._an[body.q] = a
        self.functions.add(body.q)
        return a

    def deps(self, body, control=False):
        return Deps(self.an(body), control)

    def dep(self, pkg, rule=None):
        """a context over the facts of dependency crate `pkg` as resolved for the analysed tree; obligations, findings
        and evidence are shared with this context.  Fails closed when the dependency cannot be analysed."""
        cache = self.__dict__.setdefault('_deps', {})
        if pkg in cache:
            return cache[pkg]
        try:
            path, info = extract.extract_dep(pkg)
            F = Facts(path, normalise=False)
        except Exception as e:
            self.fail(rule or self.cur_rule or 'anchor', 'anchor|dependency %s' % pkg, '-', 'dependency %s cannot be analysed (%s): cannot decide (fail closed)' % (pkg, str(e)[:300]))
            raise AnchorMissing(pkg)
        sub = Ctx(self.prop, self.tier, F, self.config)
        for attr in ('findings', 'obligations', 'samples', 'notes', 'functions', 'rules_run'):
            setattr(sub, attr, getattr(self, attr))
        sub.cur_rule = self.cur_rule
        sub.dep_info = info
        self.note('dependency %s %s analysed from %s (%d bodies)' % (pkg, info['version'], info['src'], F.n_bodies))
        cache[pkg] = sub
        return sub

    # ------------------------------------------------------- bookkeeping
    def ok(self, rule, key, loc, note=None):
        self.obligations.append((rule, key, True, loc, note))
        if note is not None and len(self.samples) < 400:
            self.samples.append({'rule': rule, 'instance': key, 'at': loc, 'holds': True, 'what': note})

    def fail(self, rule, key, loc, msg, detail=None):
        k = '%s|%s' % (rule, key)
        for f in self.findings:
            if f.key == k:
                return
        self.obligations.append((rule, key, False, loc, msg))
        self.findings.append(Finding(rule, k, loc, msg, detail))
        self.samples.append({'rule': rule, 'instance': key, 'at': loc, 'holds': False, 'what': msg})

    def check(self, cond, rule, key, loc, ok_note, fail_msg, detail=None):
        if cond:
            self.ok(rule, key, loc, ok_note)
        else:
            self.fail(rule, key, loc, fail_msg, detail)
        return cond

    def floor(self, rule, what, n, expected):
        """fail closed when an instance count drops below the count confirmed by hand"""
        self.check(n >= expected, rule, 'floor|%s' % what, '-',
                   '%d instances of %s (floor %d)' % (n, what, expected),
                   'only %d instances of %s found, %d were confirmed by reading: the rule would pass vacuously (fail closed)' % (n, what, expected))

    def note(self, s):
        self.notes.append(s)


def run_rules(ctx, rules):
    """run each rule function; a missing anchor or a crash in one rule fails that rule closed and the others still run"""
    import traceback
    for r in rules:
        name = getattr(r, '__name__', 'rule')
        ctx.cur_rule = name
        try:
            r(ctx)
        except AnchorMissing:
            pass
        except Exception as e:
            tb = traceback.format_exc()
            where = [l.strip() for l in tb.splitlines() if 'File' in l and '/rules/' in l][-1:] or ['?']
            ctx.fail(name, 'internal|%s' % type(e).__name__, '-',
                     'rule %s could not analyse the current code (%s: %s at %s): cannot decide, fail closed' % (name, type(e).__name__, str(e)[:200], where[0]), tb[-1500:])
    ctx.cur_rule = None


def load_known():
    p = os.path.join(VERIF, 'known_findings.json')
    if not os.path.exists(p):
        return []
    with open(p) as f:
        return json.load(f).get('findings', [])


CONFIGS_BY_TIER = {'quick': ['default'], 'thorough': ['default', 'nodefault', 'png']}


def run_property(prop, tier, module, meta):
    """module.run(ctx) -> None.  Returns exit code."""
    t0 = time.time()
    seed = int(os.environ.get('VERIF_SEED', '0') or 0)
    all_findings = {}
    obligations = []
    samples = []
    functions = set()
    notes = []
    cfg_info = []
    errors = []
    for config in CONFIGS_BY_TIER[tier]:
        try:
            path, info = extract.extract(config)
        except Exception as e:   # fail closed: cannot analyse => cannot say "holds"
            errors.append('fact extraction failed for config %s: %s' % (config, str(e)[-1500:]))
            continue
        F = Facts(path)
        ctx = Ctx(prop, tier, F, config)
        for e in getattr(F, 'normaliser_errors', []):
            ctx.note('normaliser step skipped: ' + e)
        for e in (getattr(F, 'renamed', []) or [])[:20]:
            ctx.note('normalised: %s' % (e,))
        try:
            module.run(ctx)
        except AnchorMissing:
            pass
        except Exception as e:      # a rule that cannot analyse the code must not say "holds"
            import traceback
            tb = traceback.format_exc()
            where = [l.strip() for l in tb.splitlines() if 'File' in l and '/rules/' in l][-1:] or ['?']
            ctx.fail(ctx.cur_rule or 'engine', 'internal|%s' % type(e).__name__, '-',
                     'a rule could not analyse the current code (%s: %s at %s): cannot decide, fail closed' % (type(e).__name__, str(e)[:200], where[0]), tb[-1500:])
        cfg_info.append({'config': config, 'features': F.features, 'bodies': F.n_bodies,
                         'tree_hash': info['tree_hash'], 'facts_cached': info['cached']})
        for f in ctx.findings:
            all_findings.setdefault(f.key, (f, config))
        obligations.extend((config,) + o for o in ctx.obligations)
        for s in ctx.samples:
            s = dict(s)
            s['config'] = config
            samples.append(s)
        functions |= ctx.functions
        notes.extend(ctx.notes)

    known = [k for k in load_known() if k.get('property') == prop]
    known_keys = {k['key']: k for k in known if k.get('status') == 'known'}
    violations = []
    known_hits = []
    for key, (f, config) in sorted(all_findings.items()):
        if key in known_keys:
            known_hits.append((f, known_keys[key]))
        else:
            violations.append((f, config))
    for e in errors:
        violations.append((Finding('extract', 'extract|' + e[:60], '-', e), '-'))

    for f, k in known_hits:
        print('KNOWN-FINDING: property=%s %s :: %s (%s)' % (prop, f.key, k.get('what', f.msg), f.loc))
    evroot = os.environ.get('VERIF_EVIDENCE_DIR') or os.path.join(VERIF, 'evidence')
    replay_dir = os.path.join(evroot, 'replay')
    os.makedirs(replay_dir, exist_ok=True)
    for i, (f, config) in enumerate(violations):
        rp = os.path.join('evidence', 'replay', '%s-%d.json' % (prop, i))
        with open(os.path.join(replay_dir, '%s-%d.json' % (prop, i)), 'w') as fh:
            json.dump({'property': prop, 'config': config, 'finding': f.as_dict(),
                       'rerun': './check %s --tier %s' % (prop, tier)}, fh, indent=1)
        print('%s: [%s] %s: %s' % (f.loc, f.rule, f.key, f.msg))
        print('VIOLATION property=%s replay=%s' % (prop, rp))

    n_ob = len(obligations)
    n_ok = sum(1 for o in obligations if o[3])
    distinct = len(set((o[1], o[2]) for o in obligations))
    rules = sorted(set(o[1] for o in obligations))
    wall = round(time.time() - t0, 3)
    # keep the evidence readable: failing samples first, then a spread over rules
    samples.sort(key=lambda s: (s['holds'], s['rule']))
    per_rule = {}
    kept = []
    for s in samples:
        c = per_rule.get(s['rule'], 0)
        if not s['holds'] or c < 6:
            kept.append(s)
            per_rule[s['rule']] = c + 1
    ev = {
        'property_id': prop,
        'tier': tier,
        'seed': seed,
        'level': 'other',
        'coverage': {
            'explanation': meta['explanation'],
            'rule': 'obligations are rule instances (one per anchored construct: call site, match arm, loop, store, '
                    'guard) recovered from the type-checked MIR of /repo\'s current working tree; an instance is '
                    'distinct by (rule id, function, construct) and non-trivial when its anchor was found in the code '
                    '(floors fail closed otherwise)',
            'obligations': n_ob,
            'discharged': n_ok,
            'evaluations': max(n_ob, 1),
            'distinct_nontrivial': distinct,
            'rules': rules,
            'samples': kept[:120] if kept else [{'note': 'no obligations produced'}],
            'checker_cmd': './check %s --tier %s' % (prop, tier),
            'trusted_base': meta.get('trusted_base', []) + [
                'rustc nightly MIR construction and type resolution',
                'the mirfacts driver\'s serialisation of MIR',
            ],
            'functions_analysed': sorted(short(q) for q in functions),
            'configurations': cfg_info,
            'decides': meta.get('decides', []),
            'does_not_decide': meta.get('does_not_decide', []),
            'known_findings_reported': [f.key for f, _ in known_hits],
            'notes': notes[:40],
            'exhaustive': False,
        },
        'assumptions': meta.get('assumptions', []),
        'wall_s': wall,
        'violations': len(violations),
    }
    with open(os.path.join(evroot, '%s.json' % prop), 'w') as fh:
        json.dump(ev, fh, indent=1)
    print('%s tier=%s configs=%d obligations=%d discharged=%d known=%d violations=%d wall=%.2fs' % (
        prop, tier, len(cfg_info), n_ob, n_ok, len(known_hits), len(violations), wall))
    return 1 if violations else 0
