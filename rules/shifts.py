"""R07.9 — shift amounts: every `<<` / `>>` whose amount is not a constant is shown to stay within [0, bits)"""
from util import *
from terms import fmt, subterms
import hazard

INF = None
CMPS = ('Eq', 'Ne', 'Lt', 'Le', 'Gt', 'Ge')
NEG = {'Eq': 'Ne', 'Ne': 'Eq', 'Lt': 'Ge', 'Ge': 'Lt', 'Gt': 'Le', 'Le': 'Gt'}
SWAP = {'Eq': 'Eq', 'Ne': 'Ne', 'Lt': 'Gt', 'Gt': 'Lt', 'Le': 'Ge', 'Ge': 'Le'}


BOTTOM = 'bottom'      # no value at all (a field copied from itself adds nothing to the set of its values)


def _union(a, b):
    if a == BOTTOM:
        return b
    if b == BOTTOM:
        return a
    lo = None if (a[0] is None or b[0] is None) else min(a[0], b[0])
    hi = None if (a[1] is None or b[1] is None) else max(a[1], b[1])
    return (lo, hi)


class Ranges:
    def __init__(self, ctx):
        self.ctx = ctx
        self.depth = 0
        self.notes = []

    # ---- raw helpers
    def _copy_root(self, b, bi, o):
        """the user local an operand reads, looking through one same-block temporary copy"""
        if o.get('k') not in ('copy', 'move') or o['p']['pr']:
            return None
        l = o['p']['l']
        for st in b.blocks[bi]['st']:
            if st.get('k') == 'assign' and st['p']['l'] == l and not st['p']['pr'] and st['rv'].get('k') == 'use' and st['rv']['o'].get('k') in ('copy', 'move') and not st['rv']['o']['p']['pr']:
                return st['rv']['o']['p']['l']
        return l

    def int_edges(self, b, local):
        """[(switch bb, target bb, op, c)]: on that edge `local op c` holds (integers: negations are exact)"""
        an = self.ctx.an(b)
        out = []
        for si, t in b.terminators('switch'):
            if si not in an.cfg.reach or t.get('ty') != 'bool':
                continue
            o = t['o']
            if o.get('k') not in ('copy', 'move') or o['p']['pr']:
                continue
            cl = o['p']['l']
            cmp_st = None
            for idx, st in enumerate(b.blocks[si]['st']):
                if st.get('k') == 'assign' and st['p']['l'] == cl and not st['p']['pr']:
                    cmp_st = (idx, st)
            if cmp_st is None or cmp_st[1]['rv'].get('k') != 'binop' or cmp_st[1]['rv'].get('op') not in CMPS:
                continue
            idx, st = cmp_st
            rv = st['rv']
            op = rv['op']
            la, lb = self._copy_root(b, si, rv['a']), self._copy_root(b, si, rv['b'])
            ca = const_val(an.term_at(si, idx, rv['a']))
            cb = const_val(an.term_at(si, idx, rv['b']))
            if la == local and cb is not None and isinstance(cb, int):
                pass
            elif lb == local and ca is not None and isinstance(ca, int):
                op, cb = SWAP[op], ca
            else:
                continue
            false_t = [tt for v, tt in t['targets'] if v == '0']
            if not false_t:
                continue
            out.append((si, t['otherwise'], op, cb))
            out.append((si, false_t[0], NEG[op], cb))
        return out

    # ---- ranges
    def of_operand(self, b, bi, idx, o):
        an = self.ctx.an(b)
        c = const_val(an.term_at(bi, idx, o))
        if c is not None and isinstance(c, int):
            return (c, c)
        if o.get('k') in ('copy', 'move'):
            return self.of_place(b, bi, idx, o['p'])
        return (INF, INF)

    def of_place(self, b, bi, idx, p):
        self.depth += 1
        try:
            if self.depth > 12:
                return (INF, INF)
            if not p['pr']:
                return self.of_local(b, bi, idx, p['l'])
            last = p['pr'][-1]
            if last.get('k') == 'field' and last.get('adt') and not str(last.get('adt')).startswith('('):
                return self.of_field(last['adt'], last['n'])
            if last.get('k') == 'field' and str(last.get('adt')).startswith('(') and len(p['pr']) == 1:
                # (value, overflowed) of a checked operation: field 0 is the value
                if str(last.get('n')) == '0':
                    return self.of_local(b, bi, idx, p['l'], tuple0=True)
            return (INF, INF)
        finally:
            self.depth -= 1

    def of_rvalue(self, b, bi, idx, rv, tuple0=False):
        k = rv.get('k')
        if k == 'use':
            return self.of_operand(b, bi, idx, rv['o'])
        if k == 'cast' and rv.get('ck') == 'IntToInt':
            r = self.of_operand(b, bi, idx, rv['o'])
            if r == BOTTOM:
                return (INF, INF)
            # a value known to be non-negative and small keeps its value through any integer cast
            return r if (r[0] is not None and r[0] >= 0 and r[1] is not None and r[1] < 2 ** 31) else ((0, INF) if False else (INF, INF))
        if k == 'binop':
            op = rv['op'].replace('WithOverflow', '')
            a = self.of_operand(b, bi, idx, rv['a'])
            c = self.of_operand(b, bi, idx, rv['b'])
            if a == BOTTOM or c == BOTTOM:
                return (INF, INF)
            if op == 'Sub':
                return (None if (a[0] is None or c[1] is None) else a[0] - c[1], None if (a[1] is None or c[0] is None) else a[1] - c[0])
            if op == 'Mul' and None not in a and None not in c:
                ps = [a[0] * c[0], a[0] * c[1], a[1] * c[0], a[1] * c[1]]
                return (min(ps), max(ps))
            if op == 'Add':
                return (None if (a[0] is None or c[0] is None) else a[0] + c[0], None if (a[1] is None or c[1] is None) else a[1] + c[1])
            if op == 'Div' and c[0] is not None and c[0] == c[1] and c[0] > 0 and a[0] is not None and a[0] >= 0:
                return (a[0] // c[0], None if a[1] is None else a[1] // c[0])
            return (INF, INF)
        if k == 'call_result':
            return rv['range']
        return (INF, INF)

    def contract(self, callee):
        """range of a crate function's return value from the comparisons that dominate its return (`assert!(r >= 0); r`)"""
        F = self.ctx.F
        cb = F.bodies.get(callee)
        if cb is None:
            return (INF, INF)
        an = self.ctx.an(cb)
        rets = [bi for bi, t in cb.terminators('return') if bi in an.cfg.reach]
        if len(rets) != 1:
            return (INF, INF)
        r = self.of_local(cb, rets[0], len(cb.blocks[rets[0]]['st']), 0)
        return r

    def of_local(self, b, bi, idx, l, tuple0=False):
        an = self.ctx.an(b)
        cfg = an.cfg
        defs = an.reaching(l, bi, idx)
        if not defs:
            return (INF, INF)
        for blk in b.blocks:
            for st in blk['st']:
                if st.get('k') == 'assign' and st['rv'].get('k') in ('ref', 'rawptr') and st['rv']['p']['l'] == l and st['rv'].get('mut', True):
                    return (INF, INF)       # may be written through the reference
        total = None
        full_def_blocks = set(d.bb for d in an.defs_of.get(l, []) if not d.partial)
        edges_all = self.int_edges(b, l)
        for d in defs:
            if d.partial:
                return (INF, INF)
            if d.kind == 'assign':
                st = b.blocks[d.bb]['st'][d.idx]
                r = self.of_rvalue(b, d.bb, d.idx, st['rv'])
            elif d.kind == 'call':
                t = b.blocks[d.bb]['t']
                c = ((t.get('f') or {}).get('fn') or {}).get('def')
                idx0 = len(b.blocks[d.bb]['st'])
                args = [(INF, INF) if x == BOTTOM else x for x in (self.of_operand(b, d.bb, idx0, a) for a in (t.get('args') or []))]
                last = (c or '').split('::')[-1]
                if c and c.startswith(self.ctx.F.crate + '::'):
                    r = self.contract(c)
                elif last == 'clamp' and len(args) == 3 and 'Ord' in c:
                    r = (args[1][0], args[2][1])
                elif last == 'max' and len(args) == 2 and 'Ord' in c:
                    los = [x[0] for x in args if x[0] is not None]
                    r = (max(los) if los else None, None if None in (args[0][1], args[1][1]) else max(args[0][1], args[1][1]))
                elif last == 'min' and len(args) == 2 and 'Ord' in c:
                    his = [x[1] for x in args if x[1] is not None]
                    r = (None if None in (args[0][0], args[1][0]) else min(args[0][0], args[1][0]), min(his) if his else None)
                else:
                    r = (INF, INF)
            else:
                r = (INF, INF)
            if r == BOTTOM:
                total = r if total is None else _union(total, r)
                continue
            # refinement by the comparisons on every path from this definition to the use
            start = d.bb if d.kind != 'call' else d.bb
            others = set((x, y) for y in full_def_blocks if y != d.bb for x in cfg.pred[y])
            changed = True
            while changed:
                changed = False
                for bound in sorted(set((op, c) for _s, _t, op, c in edges_all), key=repr):
                    op, c = bound
                    es = set((s, t2) for s, t2, op2, c2 in edges_all if (op2, c2) == bound)
                    if d.bb == bi and not (d.kind == 'call'):
                        continue        # same block, nothing in between
                    if bi == start or not hazard.cut_from(cfg, start, bi, es | others):
                        continue
                    lo, hi = r
                    if op == 'Ge' and (lo is None or lo < c):
                        lo = c
                    elif op == 'Gt' and (lo is None or lo < c + 1):
                        lo = c + 1
                    elif op == 'Le' and (hi is None or hi > c):
                        hi = c
                    elif op == 'Lt' and (hi is None or hi > c - 1):
                        hi = c - 1
                    elif op == 'Eq':
                        lo, hi = c, c
                    elif op == 'Ne' and lo is not None and lo == c:
                        lo = c + 1
                    elif op == 'Ne' and hi is not None and hi == c:
                        hi = c - 1
                    if (lo, hi) != r:
                        r = (lo, hi)
                        changed = True
            total = r if total is None else _union(total, r)
        return total

    def of_field(self, adt, name):
        """every value ever stored to a field: assignments through any place, and struct literals"""
        key = ('field', adt, name)
        if not hasattr(self, '_fields'):
            self._fields = {}
        if key in self._fields:
            return BOTTOM if self._fields[key] is None else self._fields[key]
        self._fields[key] = None        # recursion: a field copied from itself adds nothing
        total = None
        n = 0
        for q, b in self.ctx.F.bodies.items():
            an = None
            for bi, blk in enumerate(b.blocks):
                for idx, st in enumerate(blk['st']):
                    if st.get('k') != 'assign':
                        continue
                    pr = st['p']['pr']
                    r = None
                    if pr and pr[-1].get('k') == 'field' and pr[-1].get('adt') == adt and pr[-1].get('n') == name:
                        r = self.of_rvalue(b, bi, idx, st['rv'])
                    elif st['rv'].get('k') == 'agg' and st['rv'].get('adt') == adt:
                        a = self.ctx.F.adts.get(adt)
                        names = [f['name'] for f in a['variants'][0]['fields']] if a else []
                        if name in names and len(st['rv']['ops']) == len(names):
                            r = self.of_operand(b, bi, idx, st['rv']['ops'][names.index(name)])
                        else:
                            r = (INF, INF)
                    elif pr and any(e.get('k') == 'field' and e.get('adt') == adt for e in pr[:-1]) is False and False:
                        pass
                    if r is not None:
                        n += 1
                        self.notes.append('%s.%s := %s at %s' % (adt.split('::')[-1], name, r, b.loc(st.get('sp'))))
                        total = r if total is None else _union(total, r)
        # a whole-struct overwrite through a reference (`*e = other`) copies a value that was built by one of the above
        self._fields[key] = total if (n and total is not None and total != BOTTOM) else (INF, INF)
        return self._fields[key]


def r07_9(ctx):
    """shift amounts stay within the width of the shifted type"""
    R = 'R07.9'
    rg = Ranges(ctx)
    cg = hazard.CallGraph(ctx.F)
    roots = [r for r in hazard.api_roots(ctx.F) if r not in hazard.EXCLUDED]
    reach = set(q for q in cg.reachable(roots) if q not in hazard.EXCLUDED and q in ctx.F.bodies)
    n = nvar = 0
    for q in sorted(reach):
        b = ctx.F.bodies[q]
        an = ctx.an(b)
        per = {}
        for bi, t in b.terminators('assert'):
            m = t.get('msg')
            if bi not in an.cfg.reach or not isinstance(m, str) or not (m.startswith('Overflow(Shl') or m.startswith('Overflow(Shr')):
                continue
            n += 1
            blk = b.blocks[bi]
            c = an.term_at(bi, len(blk['st']), t['o'])
            # `(amount as u32) < bits`
            if not (c[0] == 'bin' and c[1] == 'Lt' and const_val(c[3]) is not None):
                ctx.fail(R, '%s|shift|%s' % (short(b.q), fmt(b, c)[:50]), b.loc(t.get('sp')), 'cannot read the overflow test of this shift (fail closed)')
                continue
            bits = const_val(c[3])
            amount = strip_casts(c[2], ('IntToInt',))
            v = const_val(amount)
            if v is not None:
                if not (0 <= v < bits):
                    ctx.fail(R, '%s|shift by constant|%s' % (short(b.q), v), b.loc(t.get('sp')), 'shift by the constant %s is outside [0, %s)' % (v, bits))
                continue
            nvar += 1
            # the raw comparison statement: its left operand is the cast of the amount
            cond_l = t['o']['p']['l']
            r = (INF, INF)
            for idx, st in enumerate(blk['st']):
                if st.get('k') == 'assign' and st['p']['l'] == cond_l and st['rv'].get('k') == 'binop':
                    a = st['rv']['a']
                    # look through the cast temporary
                    src = None
                    if a.get('k') in ('copy', 'move') and not a['p']['pr']:
                        for idx2, st2 in enumerate(blk['st']):
                            if st2.get('k') == 'assign' and st2['p']['l'] == a['p']['l'] and not st2['p']['pr'] and st2['rv'].get('k') == 'cast':
                                src = (idx2, st2['rv']['o'])
                    if src is not None:
                        r = rg.of_operand(b, bi, src[0], src[1])
                    else:
                        r = rg.of_operand(b, bi, idx, a)
            if r == BOTTOM:
                r = (INF, INF)
            what = fmt(b, amount)[:50]
            key = '%s|shift amount|%s' % (short(b.q), what)
            ok = r[0] is not None and r[1] is not None and r[0] >= 0 and r[1] < bits
            per.setdefault(key, []).append((ok, r, b.loc(t.get('sp'))))
        for key, lst in per.items():
            bad = [x for x in lst if not x[0]]
            if not bad:
                ctx.ok(R, key, lst[0][2], 'amount within %s at %d site(s): inside [0, 32)' % (sorted(set(x[1] for x in lst)), len(lst)))
            else:
                r = bad[0][1]
                ctx.fail(R, key, bad[0][2], 'the shift amount `%s` is only known to lie in [%s, %s] here: a negative or too large amount panics with "attempt to shift with overflow" when overflow checks are on (and is masked to 5 bits otherwise, giving a wrong coefficient)'
                         % (key.split('|')[-1], '-inf' if r[0] is None else r[0], '+inf' if r[1] is None else r[1]))
    ctx.floor(R, 'shift operations examined', n, 30)
    ctx.floor(R, 'shifts by a variable amount', nvar, 8)
