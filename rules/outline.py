"""A12 term-level outlining: the reverse of inlining, for audited helpers that an edited tree has written out at their
call sites.

rules/known_terms.json holds, for each small pure helper of the audited tree, its single return term as a pattern over
('param', i) and the helper's raw facts.  When the current tree has no body of that name, the term builder tries the
pattern at the root of every value it builds; a match (syntactic, modulo call-site numbers; closures are compared by
their own return terms) is replaced by the call `helper(args)` with the bound arguments, and the helper's audited body
is put back into the fact set, so that rules anchored on the helper find it and rules anchored on its call sites find
calls.  A site where something else than the audited expression was written does not match and is judged as it is."""
import json
import os

from util import nosite

HERE = os.path.dirname(os.path.abspath(__file__))


def _tup(x):
    if isinstance(x, list):
        return tuple(_tup(y) for y in x)
    return x


def load():
    p = os.path.join(HERE, 'known_terms.json')
    if not os.path.exists(p):
        return {}
    with open(p) as f:
        d = json.load(f)
    return {q: {'argc': v['argc'], 'term': _tup(v['term']), 'bodies': v['bodies']} for q, v in d.items()}


def closure_norm(ctx_or_facts, t):
    """('closure*', return term of the closure body, captured terms) for a closure aggregate, or None"""
    F = getattr(ctx_or_facts, 'F', ctx_or_facts)
    cb = F.bodies.get(t[2])
    if cb is None:
        return None
    from terms import Analysis
    can = Analysis(cb)
    if any(kind == 'assign' for a, v, pt, kind in can.stores):
        return None
    rets = []
    for r in can.cfg.returns:
        rt = can.local_term(r, len(cb.blocks[r]['st']), 0)
        rets.append(rt)
    if len(rets) != 1:
        return None
    body = strip_sites(rets[0], F)
    if body is None:
        return None
    ups = []
    for fn, ft in t[4]:
        u = strip_sites(ft, F)
        if u is None:
            return None
        ups.append(u)
    return ('closure*', body, tuple(ups))


def strip_sites(t, F, strict=True):
    """the term without call-site numbers, closures replaced by their normal form; with strict (patterns): None when it
    contains a leaf that is not expressed over parameters (phi / mem / rec / unknown)"""
    if not isinstance(t, tuple) or not t:
        return t
    h = t[0]
    if h in ('phi', 'mem', 'rec', 'unknown', 'proj?'):
        return None if strict else t
    if h == 'agg' and t[1] == 'closure':
        return closure_norm(F, t)
    if h == 'call':
        callee = t[1]
        if not isinstance(callee, str):
            inner = strip_sites(callee[1], F, strict)
            if inner is None:
                return None
            callee = ('ind', inner)
        args = []
        for a in t[2]:
            x = strip_sites(a, F, strict)
            if x is None:
                return None
            args.append(x)
        return ('call', callee, tuple(args), 0)
    out = []
    for x in t:
        if isinstance(x, tuple):
            y = strip_sites(x, F, strict)
            if y is None and x:
                return None
            out.append(y)
        else:
            out.append(x)
    return tuple(out)


def to_pattern(ctx, t):
    return strip_sites(t, ctx.F)


def match(pat, t, env):
    """pat over ('param', i); t a site-stripped target term; env: {i: term}"""
    if isinstance(pat, tuple) and len(pat) == 2 and pat[0] == 'param':
        if pat[1] in env:
            return env[pat[1]] == t
        env[pat[1]] = t
        return True
    # `*p` for a reference parameter p against a value written in place: p := &value
    if isinstance(pat, tuple) and len(pat) == 2 and pat[0] == 'deref' and isinstance(pat[1], tuple) and len(pat[1]) == 2 and pat[1][0] == 'param' \
            and not (isinstance(t, tuple) and t and t[0] == 'deref'):
        return match(pat[1], ('ref', t), env)
    if not isinstance(pat, tuple) or not isinstance(t, tuple):
        return pat == t
    if len(pat) != len(t):
        return False
    return all(match(p, x, env) for p, x in zip(pat, t))


class Outliner:
    def __init__(self, facts, patterns):
        self.F = facts
        self.active = {q: v for q, v in patterns.items() if q not in facts.bodies}
        self.hits = {}

    def try_root(self, t, site, inside=None):
        """t: a freshly built value term; returns the call term of a missing helper whose pattern it instantiates, or None"""
        if not self.active or not isinstance(t, tuple) or t[0] not in ('call', 'agg', 'bin', 'cast'):
            return None
        st = None
        for q, v in self.active.items():
            pat = v['term']
            if pat[0] != t[0] or (inside is not None and (inside == q or inside.startswith(q + '::{closure'))):
                continue
            if pat[0] == 'call' and (pat[1] != t[1] or len(pat[2]) != len(t[2])):
                continue
            if st is None:
                st = strip_sites(t, self.F, strict=False)
                if st is None:
                    return None
            env = {}
            if match(pat, st, env):
                args = tuple(env.get(i, ('unknown',)) for i in range(1, v['argc'] + 1))
                self.hits[q] = self.hits.get(q, 0) + 1
                return ('call', q, args, site)
        return None


def activate(facts):
    """called by Facts: find which missing helpers were written out at their audited call sites and put their audited
    bodies back.  Returns descriptions."""
    from facts import Body
    from terms import Analysis
    pats = load()
    o = Outliner(facts, pats)
    facts.outliner = o
    if not o.active:
        return []
    done = []
    for b in list(facts.bodies.values()):
        # force the value terms of this body so that pattern instances are counted
        try:
            an = Analysis(b)
            for d in an.defs:
                if d.kind in ('assign', 'call') and not d.partial:
                    an.def_term(d)
            for bi, blk in enumerate(b.blocks):
                if blk['t']['k'] == 'call':
                    an.call_term(bi)
        except Exception:
            continue
    for q, n in sorted(o.hits.items()):
        for rb in o.active[q]['bodies']:
            if rb['q'] not in facts.bodies:
                facts.bodies[rb['q']] = Body(rb, facts)
        done.append('%s written out at %d site(s): recognised, audited body restored' % (q, n))
    # a helper that is missing and recognised nowhere stays missing (rules anchored on it fail closed)
    o.active = {q: v for q, v in o.active.items() if q in o.hits}
    o.hits = {}
    return done
