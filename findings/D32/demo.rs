// D32 (C09): a dash offset that falls exactly on an off->on boundary of the pattern leaves the initial dash
// state on the exhausted 'off' entry; the first LineTo then toggles to 'on' and clears `is_first_segment`
// before anything was buffered, so on a closed subpath the piece that reaches the end is not joined to the
// piece that starts at the beginning: the corner at the start point is missing.
use raqote::*;

fn square(offset: f32, dashes: Vec<f32>, join: LineJoin) -> DrawTarget {
    let mut dt = DrawTarget::new(80, 80);
    let mut pb = PathBuilder::new();
    pb.move_to(20., 20.);
    pb.line_to(60., 20.);
    pb.line_to(60., 60.);
    pb.line_to(20., 60.);
    pb.close();
    let path = pb.finish();
    let style = StrokeStyle { width: 8., cap: LineCap::Butt, join, miter_limit: 10., dash_array: dashes, dash_offset: offset };
    dt.stroke(&path, &Source::Solid(SolidSource { r: 0xff, g: 0xff, b: 0xff, a: 0xff }), &style, &DrawOptions::new());
    dt
}

fn px(dt: &DrawTarget, x: i32, y: i32) -> u32 {
    dt.get_data()[(y * dt.width() + x) as usize]
}

// pattern [10,10,20,13] (period 53): offset 20 puts position 0 at the start of the 20-long dash; the path is 160 long
// and 160 + 20 = 180 = 3*53 + 21 lies in that dash as well: the end piece [159,160] and the first piece [0,20] are both
// on and meet at the start point (20,20), so they must be joined and the miter corner [16,20]x[16,20] painted
#[test]
fn offset_on_an_off_on_boundary_miter() {
    let dt = square(20., vec![10., 10., 20., 13.], LineJoin::Miter);
    assert_eq!(px(&dt, 17, 17), 0xffffffff, "corner at the start point is not joined");
    assert_eq!(px(&dt, 18, 18), 0xffffffff);
}

// the same just inside the dash: joined on the unchanged tree as well (control)
#[test]
fn offset_just_inside_the_dash_control() {
    let dt = square(20.5, vec![10., 10., 20., 13.], LineJoin::Miter);
    assert_eq!(px(&dt, 17, 17), 0xffffffff);
}

// offset 0 with [40,10] (period 50): 160 = 3*50 + 10 is inside the first dash, the end piece [150,160] and the first
// piece [0,40] are joined on the unchanged tree as well (control)
#[test]
fn offset_zero_control() {
    let dt = square(0., vec![40., 10.], LineJoin::Miter);
    assert_eq!(px(&dt, 17, 17), 0xffffffff);
}

// offset 40 with [25,15,30,11] (period 81): position 0 is the start of the 30-dash, but the end 200 = 2*81 + 38 lies in
// the gap [25,40): nothing reaches the end, no join, the corner stays unpainted on both trees
#[test]
fn end_in_a_gap_has_no_join() {
    let dt = square(40., vec![25., 15., 30., 11.], LineJoin::Miter);
    assert_eq!(px(&dt, 17, 17), 0);
}

#[test]
fn offset_on_an_off_on_boundary_round() {
    let dt = square(20., vec![10., 10., 20., 13.], LineJoin::Round);
    // round join of radius 4 around (20,20): (18,18) is 2.1 from the centre
    assert_eq!(px(&dt, 18, 18), 0xffffffff, "round join at the start point is missing");
}
