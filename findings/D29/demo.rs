use raqote::*;
fn main() {
    // D29: negative-size fill_rect: fast path vs general path
    let red = Source::Solid(SolidSource { r: 0xff, g: 0, b: 0, a: 0xff });
    let mut a = DrawTarget::new(8, 8);
    a.fill_rect(5., 5., -3., 3., &red, &DrawOptions::new());
    let mut b = DrawTarget::new(8, 8);
    b.push_clip_rect(IntRect::new(IntPoint::new(0, 0), IntPoint::new(8, 8)));
    b.fill_rect(5., 5., -3., 3., &red, &DrawOptions::new());
    let mut c = DrawTarget::new(8, 8);
    let mut pb = PathBuilder::new();
    pb.rect(5., 5., -3., 3.);
    c.fill(&pb.finish(), &red, &DrawOptions::new());
    let px = |d: &DrawTarget, x: i32, y: i32| d.get_data()[(y * 8 + x) as usize];
    println!("fill_rect no clip   (3,6): {:08x}", px(&a, 3, 6));
    println!("fill_rect with clip (3,6): {:08x}", px(&b, 3, 6));
    println!("fill path           (3,6): {:08x}", px(&c, 3, 6));
    println!("equal a==c: {}  b==c: {}", a.get_data() == c.get_data(), b.get_data() == c.get_data());
}
