use raqote::*;
fn run(mode: BlendMode, name: &str) {
    // search for a Hue-blend overflow panic on valid premultiplied pixels
    let mut n = 0u64;
    let mut seed = 12345u64;
    let mut rnd = || { seed = seed.wrapping_mul(6364136223846793005).wrapping_add(1442695040888963407); (seed >> 33) as u32 };
    for _ in 0..200000 {
        let da = rnd() % 256; let dr = rnd() % (da + 1); let dg = rnd() % (da + 1); let db = rnd() % (da + 1);
        let sa = rnd() % 256; let sr = rnd() % (sa + 1); let sg = rnd() % (sa + 1); let sb = rnd() % (sa + 1);
        let d = (da << 24) | (dr << 16) | (dg << 8) | db;
        let r = std::panic::catch_unwind(|| {
            let mut dt = DrawTarget::new(1, 1);
            dt.get_data_mut()[0] = d;
            let src = Source::Solid(SolidSource { r: sr as u8, g: sg as u8, b: sb as u8, a: sa as u8 });
            let mut o = DrawOptions::new(); o.blend_mode = mode;
            dt.fill_rect(0., 0., 1., 1., &src, &o);
        });
        if r.is_err() { n += 1; if n < 2 { println!("  {} PANIC dst={:08x} src a={} r={} g={} b={}", name, d, sa, sr, sg, sb); } }
    }
    println!("{}: panics in 200000 random valid premultiplied pairs: {}", name, n);
}
fn main() {
    std::panic::set_hook(Box::new(|_| {}));
    run(BlendMode::Hue, "Hue"); run(BlendMode::Saturation, "Saturation"); run(BlendMode::Color, "Color"); run(BlendMode::Luminosity, "Luminosity"); run(BlendMode::Difference, "Difference"); run(BlendMode::SoftLight, "SoftLight");
}
