// D31: copy_surface / blend_surface with a destination or source rectangle far outside the surfaces
// (C07: "source rectangles or destinations far outside either surface" are harmless; C15: nothing is placed).
// On the unrepaired tree the three `far_*` tests panic with "attempt to subtract/add with overflow"
// (debug build = overflow checks on); the `near_*` test passes either way.
use raqote::*;

fn red(w: i32, h: i32) -> DrawTarget {
    let mut s = DrawTarget::new(w, h);
    s.clear(SolidSource { r: 0xff, g: 0, b: 0, a: 0xff });
    s
}

#[test]
fn far_destination() {
    let src = red(4, 4);
    let mut dt = DrawTarget::new(4, 4);
    dt.copy_surface(&src, IntRect::new(IntPoint::new(-10, -10), IntPoint::new(10, 10)), IntPoint::new(i32::MAX, 0));
    assert!(dt.get_data().iter().all(|&p| p == 0));
}

#[test]
fn far_destination_translate() {
    let src = red(4, 4);
    let mut dt = DrawTarget::new(4, 4);
    dt.copy_surface(&src, IntRect::new(IntPoint::new(0, 0), IntPoint::new(4, 4)), IntPoint::new(i32::MAX - 1, 0));
    assert!(dt.get_data().iter().all(|&p| p == 0));
}

#[test]
fn far_source_rect() {
    let src = red(4, 4);
    let mut dt = DrawTarget::new(4, 4);
    dt.blend_surface(&src, IntRect::new(IntPoint::new(i32::MAX - 2, 0), IntPoint::new(i32::MAX, 4)), IntPoint::new(-5, 0), BlendMode::SrcOver);
    dt.blend_surface(&src, IntRect::new(IntPoint::new(i32::MIN, i32::MIN), IntPoint::new(i32::MIN + 3, 4)), IntPoint::new(3, i32::MAX), BlendMode::SrcOver);
    assert!(dt.get_data().iter().all(|&p| p == 0));
}

#[test]
fn near_still_places_the_block() {
    let src = red(4, 4);
    let mut dt = DrawTarget::new(4, 4);
    // src_rect.min = (1,1) lands on dst = (-1, 2): source pixels (2..4, 1..3) land on (0..2, 2..4)
    dt.copy_surface(&src, IntRect::new(IntPoint::new(1, 1), IntPoint::new(9, 9)), IntPoint::new(-1, 2));
    let d = dt.get_data();
    for y in 0..4 { for x in 0..4 {
        let want = if x < 2 && y >= 2 { 0xffff0000 } else { 0 };
        assert_eq!(d[(y * 4 + x) as usize], want, "pixel ({}, {})", x, y);
    }}
}
