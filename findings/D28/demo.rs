use raqote::*;
fn main() {
    let mut dt = DrawTarget::new(100, 100);
    let g = Gradient { stops: vec![
        GradientStop { position: 0.0, color: Color::new(255, 255, 0, 0) },
        GradientStop { position: 1.0, color: Color::new(255, 0, 0, 255) },
    ]};
    let src = Source::new_sweep_gradient(g, Point::new(50., 50.), 90., 270., Spread::Pad);
    dt.fill_rect(0., 0., 100., 100., &src, &DrawOptions::new());
    let px = |x: i32, y: i32| dt.get_data()[(y * 100 + x) as usize];
    // angle 90 deg (straight down in device space, y grows downwards): should be t=0 => pure red
    println!("at 90deg  (50,90): {:08x}  (expected ffff0000, t=0)", px(50, 90));
    println!("at 180deg (10,50): {:08x}  (expected ~ff800080, t=0.5)", px(10, 50));
    println!("at 269deg (49,10): {:08x}  (expected ~ff0000ff, t~1)", px(49, 10));
    println!("at 0deg   (90,50): {:08x}  (outside the ramp, Pad: either end colour)", px(90, 50));
}
